type A = { b?: B, tag: "a" };
type B = { a?: A, c?: C, tag: "b" };
type C = { a: A | B | null, self: C[] };
type T = { a: A, c: C, m: Map<string, A>, t: [A, ...B[]] };
parse.buildParsers<{ T: T, A: A, C: C }>();

type T = { s: "a\"b" | "c\\d" | "\n" | " " | "</script>" | "`${x}`", one: "it's", b: true | 1 | "true" | null, f: false, neg: -1.5 | 2, e: 1e-7, big: 1.7976931348623157e308, tiny: 5e-324 };
parse.buildParsers<{ T: T }>();

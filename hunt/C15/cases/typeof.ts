const x = { a: 1, "b-c": "s", n: null, arr: [1, "z"] } as const;
const y = { a: 1, b: "x" };
type T = { p: typeof x, q: typeof x, k: keyof typeof x, y: typeof y, y2: typeof y, v: (typeof x)["arr"][number] };
parse.buildParsers<{ T: T }>();

export default [{ k: "a\rzz", j: "b\r1" }, { k: "a\nzz", j: "b\n1" }, { k: "a\rzz", j: "b\n1" }, { k: "a\nzz", j: "b\r1" }];

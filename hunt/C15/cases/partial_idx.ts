type B = { a: string; [k: string]: string };
type T = { p: Partial<B>, q: Partial<Record<string, number>>, r: Partial<Record<`x${string}`, number>> };
parse.buildParsers<{ T: T }>();

type Box<X> = { v: X, next?: Box<X> };
type T = { a: Box<string>, b: Box<number>, c: Box<"x-y" | null>, d: Box<Box<string>[]> };
parse.buildParsers<{ T: T }>();

type A = { tag: "a" | "b", x: string };
type B = { tag: "c", y?: number };
type C = { tag: "d", z: A | B };
type U = A | B | C;
type T = { u: U, u2: U, arr: (A | B)[], o?: A | B | null };
parse.buildParsers<{ T: T, U: U }>();

export default [
 { a: { a: 1, xq: 2 }, b: {}, c: {}, d: { lit: 1 } },
 { a: { xq: 2 }, b: {}, c: {}, d: { lit: 1 } },
 { a: { a: 1 }, b: { p: "s", y1: "t" }, c: { x1: true, y2: false }, d: { lit: 1, zz: "s" } },
 { a: { a: 1, b: 3 }, b: {}, c: {}, d: { lit: 1 } },
 { a: { a: 1 }, b: { r: "x" }, c: {}, d: { lit: 1 } },
 { a: { a: 1 }, b: {}, c: { z: true }, d: { lit: 1 } },
 { a: { a: 1 }, b: {}, c: {}, d: { lit: 1, q: 1 } },
];

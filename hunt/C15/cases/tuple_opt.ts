type T = { t: [string, number?], u: [a: string, b?: boolean, ...rest: number[]] };
parse.buildParsers<{ T: T }>();

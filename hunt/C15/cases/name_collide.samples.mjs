export default [{ a: { v: "s" }, a2: { v: "s" }, b: { w: 1 }, b2: { w: 1 } }];

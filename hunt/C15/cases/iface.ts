interface Base { id: string; "x-y"?: number }
interface Child extends Base { kids: Child[]; parent?: Child | null; [k: `data-${string}`]: string }
type T = { c: Child, b: Base, b2: Base };
parse.buildParsers<{ T: T, Child: Child }>();

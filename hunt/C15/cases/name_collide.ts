type Box<X> = { v: X };
type Box_string = { w: number };
type T = { a: Box<string>, a2: Box<string>, b: Box_string, b2: Box_string };
parse.buildParsers<{ T: T }>();

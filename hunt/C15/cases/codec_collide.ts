type CodecT = { x: number };
type T = { a: CodecT, b: CodecT };
parse.buildParsers<{ T: T }>();

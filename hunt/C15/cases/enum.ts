enum E { A = "a", B = "b-c" }
enum N { X = 1, Y = 2 }
type T = { e: E, a: E.A, a2: E.A, n: N, x: N.X, r: Record<E, number>, e2: E, pe: Partial<Record<E, string>>, t: `${E}-x` };
parse.buildParsers<{ T: T }>();

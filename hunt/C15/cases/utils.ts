type U = { name: string, age?: number, "e-mail": string, tag: "u" };
type V = { tag: "v", w: U[] };
type T = {
  o: Omit<U, "age">, p: Pick<U, "e-mail" | "age">, r: Required<U>, pa: Partial<U>, ro: Readonly<U>,
  ex: Exclude<"a" | "b" | "c", "a">, k: keyof U, ia: U["e-mail"], du: U | V, dn: (U | V)["tag"],
  rec: Record<"a" | "b", U>, rec2: Record<U["tag"] | V["tag"], number>,
};
parse.buildParsers<{ T: T }>();

type K = `x${string}`;
type T = { a: Record<K, number>, b: Record<K, string>, c: Partial<Record<K, string>> };
parse.buildParsers<{ T: T }>();

type T = { o: object, e: {}, r: Record<string, never>, i: {a: string} & Record<string, string>, j: {a: 1} & ({b: 2} | {c: 3}) };
parse.buildParsers<{ T: T }>();

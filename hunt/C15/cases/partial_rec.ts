type T = { a: Partial<Record<string | number, boolean>>, b: Partial<Record<number, Date>>, c: Partial<object>, d: Partial<Record<`a${string}` | `b${number}`, 1>>, e: Partial<Partial<Record<string, string | undefined>>> , f: Record<string, string | undefined>};
parse.buildParsers<{ T: T }>();

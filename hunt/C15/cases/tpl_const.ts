type T = { k: `a${"b"}` };
parse.buildParsers<{ T: T }>();

/** A user. `code` ${x} /* nested open
 * second line with * star and trailing backslash \
 * @deprecated use Other
 */
type U = {
  /** the name */
  name: string;
  /**
   * multi
   * line
   */
  "e-mail"?: string;
  /** idx doc */
  [k: `x-${string}`]: string;
  nested: Array<{
    /** inner doc */
    a: number | /** in-union doc */ { /** deep */ z: 1 }
  }>;
};
/** doc of V */
type V = U[];
type T = {
  /** member u doc */
  u: U,
  /** member u2 doc */
  u2: U,
  v: V,
  /** tuple doc */
  t: [/** elem doc */ a: string],
};
/** parser doc */
parse.buildParsers<{ T: T, U: U }>();

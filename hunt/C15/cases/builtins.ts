type T = { d: Date, b: bigint, u: Uint8Array, m: Map<string, Date>, s: Set<bigint>, f: () => void, f2: (a: number) => string, v: void, un: undefined, n: null, nv: never, unk: unknown, a: any, arr: any[], ro: readonly string[], rot: readonly [string, number] };
parse.buildParsers<{ T: T }>();

type T = { k: `a\r${string}`, j: `b${number}` };
parse.buildParsers<{ T: T }>();

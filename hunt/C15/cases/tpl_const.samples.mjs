export default [{ k: "ab" }, { k: "a" }];

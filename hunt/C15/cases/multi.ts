import { A } from "./a";
import { A as A2 } from "./b";
import * as M from "./a";
type A3 = { z: boolean };
type T = { x: A, y: A2, x2: A, y2: A2, m: M.A, l: A3, l2: A3 };
parse.buildParsers<{ T: T }>();
//// file: a.ts
export type A = { a: string };
//// file: b.ts
export type A = { b: number };

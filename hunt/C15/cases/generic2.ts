type Pair<A, B> = { a: A, b: B, swap?: Pair<B, A> };
type Res<T, E> = { ok: true, v: T } | { ok: false, e: E };
type T = { p: Pair<string, number>, q: Pair<number, string>, r: Res<Date, string>, r2: Res<Date, string>, s: Res<Pair<1, 2>, null> };
parse.buildParsers<{ T: T }>();

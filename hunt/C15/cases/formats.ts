type P = StringFormat<"password">;
type U = StringFormatExtends<StringFormat<"User">, "ReadAuthorizedUser">;
type W = StringFormatExtends<U, "WriteAuthorizedUser">;
type Ag = NumberFormat<"age">;
type R = NumberFormatExtends<NumberFormat<"NonInfiniteNumber">, "NonNegativeNumber">;
type T = { p: P, u: U, w: W, a: Ag, r: R, rec: Record<P, number>, m: { [K in U]?: string } };
parse.buildParsers<{ T: T }>();

type Tree = { kids: Tree[], v: string } | null;
type L = { next: L } | string | undefined;
type T = { a: Exclude<Tree, null>, b: NonNullable<L>, c: Exclude<L, string>, d: Tree & {}, e: Exclude<Tree, null>, a2: Exclude<Tree, null> };
parse.buildParsers<{ T: T }>();

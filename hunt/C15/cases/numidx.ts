type T = { n: Record<number, string>, m: { [k: number]: boolean; a: boolean }, u: Record<string | number, string> };
parse.buildParsers<{ T: T }>();

type T = { a: string, b?: number, "c-d": [string, ...number[]] };
parse.buildParsers<{ T: T }>();

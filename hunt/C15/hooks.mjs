// loader hooks: ./x.js -> ./x.ts inside beff-client/src, zod stub, "@beff/client/codegen-v2" -> the sources
import { readFileSync } from "node:fs";
import { fileURLToPath, pathToFileURL } from "node:url";
import { existsSync } from "node:fs";
import path from "node:path";
const CLIENT = "/tmp/hunt-C15/packages/beff-client/src/";
export async function resolve(specifier, context, nextResolve) {
  if (specifier === "zod") return { url: "data:text/javascript,export const z = { custom: () => ({}) };", shortCircuit: true };
  if (specifier === "@beff/client/codegen-v2") return { url: pathToFileURL(CLIENT + "codegen-v2.ts").href, shortCircuit: true };
  if (specifier.startsWith("./") && specifier.endsWith(".js") && context.parentURL?.startsWith("file://" + CLIENT)) {
    const p = path.join(path.dirname(fileURLToPath(context.parentURL)), specifier.replace(/\.js$/, ".ts"));
    if (existsSync(p)) return { url: pathToFileURL(p).href, shortCircuit: true };
  }
  return nextResolve(specifier, context);
}
export async function load(url, context, nextLoad) {
  if (url.startsWith("file://" + CLIENT) && url.endsWith(".ts")) {
    let src = readFileSync(fileURLToPath(url), "utf8");
    // value-position imports of pure types
    src = src.replace(/import \{([^}]*)\} from "\.\/(json-schema|types)\.js";/g, (m, names, f) => `import type {${names.replace(/\btype /g, "")}} from "./${f}.js";`);
    if (url.endsWith("/b.ts")) src = src.replace(/^  Runtype,\n/m, "");
    const { stripTypeScriptTypes } = await import("node:module");
    return { format: "module", source: stripTypeScriptTypes(src), shortCircuit: true };
  }
  return nextLoad(url, context);
}

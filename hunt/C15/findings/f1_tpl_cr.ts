type T = { k: `a\r${string}` };
parse.buildParsers<{ T: T }>();

// node --no-warnings --import ./register.mjs two_modules.mjs
// Two separately generated parser modules, each with its own named type `User`, combined with b.Object.
import { compile, load } from "../rt.mjs";
const { b } = await import("/tmp/hunt-C15/packages/beff-client/src/b.ts");
const m1 = await load(compile(`type User = { id: string };\ntype A = { u: User, v: User };\nparse.buildParsers<{ A: A }>();\n`, "two.1").mod);
const m2 = await load(compile(`type User = { n: number };\ntype B = { u: User, v: User };\nparse.buildParsers<{ B: B }>();\n`, "two.2").mod);
const both = b.Object({ a: m1.A, b: m2.B });
const text = both.describe();
console.log("describe():\n" + text);
const value = { a: { u: { id: "x" }, v: { id: "y" } }, b: { u: { n: 1 }, v: { n: 2 } } };
console.log("original accepts value:", both.validate(value));
// the text is `<declarations>\n\n<type expression>`: name the expression to compile it again
const idx = text.lastIndexOf("\n\n");
const src2 = `${text.slice(0, idx)}\n\ntype Both = ${text.slice(idx + 2)};\nparse.buildParsers<{ Both: Both }>();\n`;
const c2 = compile(src2, "two.3");
if (c2.error) { console.log("second compile failed", c2.error); process.exit(1); }
const again = await load(c2.mod);
console.log("recompiled accepts value:", again.Both.validate(value));
console.log("hash256 same:", both.hash256() === again.Both.hash256());

export default [{ k: "a\rzz" }, { k: "a\nzz" }];

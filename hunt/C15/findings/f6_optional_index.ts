type B = { a: string; [k: string]: string };
type T = { p: Partial<B>, q: { [K in "p" | `y${number}`]?: string } };
parse.buildParsers<{ T: T }>();

type T = { k: `${"$"}{string}${number}` };
parse.buildParsers<{ T: T }>();

export default [{ p: {}, q: {} }, { p: { a: "s", z: "t" }, q: { p: "s", y1: "t" } }, { p: { z: undefined }, q: { y1: undefined } }, { p: { z: null }, q: { y1: null } }, { p: { z: 1 }, q: {} }];

const ymd = { y: 1, m: 2, d: 3 };
export default [{ d1: ymd, d2: ymd, real: new Date() }, { d1: new Date(), d2: new Date(), real: new Date() }, { d1: ymd, d2: ymd, real: ymd }];

// node --no-warnings --import ./register.mjs bconst.mjs
const { b } = await import("/tmp/hunt-C15/packages/beff-client/src/b.ts");
const { createNamedType } = await import("@beff/client/codegen-v2");
for (const v of [Infinity, -Infinity, NaN, -0, 1e21, 2 ** 53]) {
  const p = b.Const(v);
  console.log(String(v), "describe:", p.describe(), "| accepts itself:", p.validate(v), "| accepts null:", p.validate(null));
}
const inner = createNamedType("tree-node", b.Object({ v: b.String() }));
console.log(b.Object({ l: inner, r: inner }).describe());

import { Date as Ymd } from "./a";
type T = { d1: Ymd, d2: Ymd, real: Date };
parse.buildParsers<{ T: T }>();
//// file: a.ts
export type Date = { y: number, m: number, d: number };

// Compiles the TypeScript program in $HUNT_IN and writes the generated JS module (or the diagnostics) to $HUNT_OUT.
// A program may hold several files: a line `//// file: name.ts` starts the next one (the first one is entry.ts).
use beff_core::test_tools::{failure_multifile, print_cgen_multifile};

fn split(src: &str) -> Vec<(String, String)> {
    let mut out: Vec<(String, String)> = vec![("entry.ts".to_string(), String::new())];
    for line in src.lines() {
        if let Some(name) = line.strip_prefix("//// file: ") {
            out.push((name.trim().to_string(), String::new()));
        } else {
            let last = out.last_mut().unwrap();
            last.1.push_str(line);
            last.1.push('\n');
        }
    }
    out
}

#[test]
fn hunt_compile() {
    let Ok(inp) = std::env::var("HUNT_IN") else { return };
    let out = std::env::var("HUNT_OUT").expect("HUNT_OUT");
    let src = std::fs::read_to_string(&inp).expect("read");
    // keep a lone CR intact: lines() only strips \r\n / \n
    let files = if src.contains("//// file: ") { split(&src) } else { vec![("entry.ts".to_string(), src.clone())] };
    let refs: Vec<(&str, &str)> = files.iter().map(|(a, b)| (a.as_str(), b.as_str())).collect();
    let res = std::panic::catch_unwind(|| print_cgen_multifile(&refs));
    match res {
        Ok(code) => std::fs::write(&out, code).unwrap(),
        Err(_) => {
            let msg = std::panic::catch_unwind(|| failure_multifile(&refs)).unwrap_or_else(|_| "PANIC".to_string());
            std::fs::write(&out, format!("//COMPILE-ERROR\n/*\n{}\n*/\n", msg)).unwrap()
        }
    }
}

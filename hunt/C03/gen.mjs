// structure-directed random value generator over Runtype instances (reads their private fields)
import { rt } from "./lib.mjs";
let seed = 12345;
export const setSeed = (s) => { seed = s >>> 0; };
const rnd = () => { seed = (seed * 1664525 + 1013904223) >>> 0; return seed / 4294967296; };
const pick = (a) => a[Math.floor(rnd() * a.length)];
const chance = (p) => rnd() < p;
const STR = ["", "a", "b", "x", "__proto__", "constructor", "toString", "é\u{1F600}", "1", "-0", "a b"];
const NUM = [0, -0, 1, -1, 1.5, NaN, Infinity, 1e308, 2 ** 53, 42];
export let exotic = false; // when true, `any` slots may hold built-ins / class instances
export const setExotic = (v) => { exotic = v; };
function genAny(d) {
  const k = Math.floor(rnd() * (exotic ? 14 : 8));
  switch (k) {
    case 0: return pick(STR);
    case 1: return pick(NUM);
    case 2: return null;
    case 3: return undefined;
    case 4: return chance(0.5);
    case 5: return d > 2 ? [] : [genAny(d + 1), genAny(d + 1)];
    case 6: return d > 2 ? {} : { [pick(STR)]: genAny(d + 1), k: genAny(d + 1) };
    case 7: return JSON.parse('{"__proto__": {"p": 1}, "q": 2}');
    case 8: return new Date(0);
    case 9: return new Map([["k", 1]]);
    case 10: return new Set([1]);
    case 11: return new Uint8Array([1, 2]);
    case 12: return 10n;
    case 13: return new ArrayBuffer(2);
  }
}
function mergeVals(a, b) {
  if (a && b && typeof a === "object" && typeof b === "object" && !Array.isArray(a) && !Array.isArray(b) && Object.getPrototypeOf(a) === Object.prototype && Object.getPrototypeOf(b) === Object.prototype) {
    const out = { ...a };
    for (const k of Object.keys(b)) out[k] = k in a ? mergeVals(a[k], b[k]) : b[k];
    return out;
  }
  if (Array.isArray(a) && Array.isArray(b)) { const n = Math.max(a.length, b.length); const o = []; for (let i = 0; i < n; i++) o.push(i < a.length && i < b.length ? mergeVals(a[i], b[i]) : i < a.length ? a[i] : b[i]); return o; }
  if (a instanceof Map && b instanceof Map) { const o = new Map(a); for (const [k, v] of b) o.set(k, o.has(k) ? mergeVals(o.get(k), v) : v); return o; }
  if (a instanceof Set && b instanceof Set) { const x = [...a], y = [...b]; return new Set(mergeVals(x, y)); }
  return b;
}
export function gen(r, d = 0) {
  const R = rt;
  if (d > 8) return null;
  if (r instanceof R.BaseRefRuntype) return gen(r.getNamedRuntypes()[r.refName], d + 1);
  if (r instanceof R.OptionalFieldRuntype) return chance(0.3) ? undefined : gen(r.t, d);
  if (r instanceof R.TypeofRuntype) { const t = r.typeName; return t === "string" ? pick(STR) : t === "number" ? pick(NUM) : t === "boolean" ? chance(0.5) : () => 1; }
  if (r instanceof R.AnyRuntype) return genAny(d);
  if (r instanceof R.NullishRuntype) return chance(0.5) ? null : undefined;
  if (r instanceof R.NeverRuntype) return undefined;
  if (r instanceof R.ConstRuntype) return r.value;
  if (r instanceof R.RegexRuntype) return pick(["a", "1", "a1", "x-y", "", "1.5", "true"]);
  if (r instanceof R.DateRuntype) return new Date(1);
  if (r instanceof R.BigIntRuntype) return 5n;
  if (r instanceof R.TypedArrayRuntype) return new globalThis[r.ctorName](2);
  if (r instanceof R.StringWithFormatRuntype) return pick(STR);
  if (r instanceof R.NumberWithFormatRuntype) return pick(NUM);
  if (r instanceof R.AnyOfConstsRuntype) return pick(r.values);
  if (r instanceof R.TupleRuntype) {
    const out = r.prefix.map((p) => gen(p, d + 1));
    if (r.rest) { const n = Math.floor(rnd() * 3); for (let i = 0; i < n; i++) out.push(gen(r.rest, d + 1)); }
    if (chance(0.2) && out.length) out.pop();
    return out;
  }
  if (r instanceof R.AllOfRuntype) return r.schemas.map((s) => gen(s, d + 1)).reduce(mergeVals);
  if (r instanceof R.AnyOfRuntype || r instanceof R.AnyOfDiscriminatedRuntype) {
    const a = gen(pick(r.schemas), d + 1);
    return chance(0.4) ? mergeVals(a, gen(pick(r.schemas), d + 1)) : a;
  }
  if (r instanceof R.ArrayRuntype) { const n = Math.floor(rnd() * 3); return Array.from({ length: n }, () => gen(r.itemParser, d + 1)); }
  if (r instanceof R.MapRuntype) { const m = new Map(); const n = Math.floor(rnd() * 3); for (let i = 0; i < n; i++) m.set(gen(r.keyParser, d + 1), gen(r.valueParser, d + 1)); return m; }
  if (r instanceof R.SetRuntype) { const m = new Set(); const n = Math.floor(rnd() * 3); for (let i = 0; i < n; i++) m.add(gen(r.itemParser, d + 1)); return m; }
  if (r instanceof R.ObjectRuntype) {
    const o = {};
    let keys = Object.keys(r.properties);
    if (chance(0.3)) keys = keys.reverse();
    for (const k of keys) { const v = gen(r.properties[k], d + 1); if (!(r.properties[k] instanceof R.OptionalFieldRuntype && v === undefined && chance(0.7))) o[k] = v; }
    for (const p of r.indexedPropertiesParser) { const n = Math.floor(rnd() * 3); for (let i = 0; i < n; i++) { const k = gen(p.key, d + 1); if (typeof k === "string" || typeof k === "number") Object.defineProperty(o, String(k), { value: gen(p.value, d + 1), enumerable: true, writable: true, configurable: true }); } }
    if (chance(0.25)) o[pick(["extra", "zz", "0"])] = genAny(d + 1);
    return o;
  }
  throw new Error("gen: unknown runtype " + r?.constructor?.name);
}

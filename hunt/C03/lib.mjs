import * as rt from "../packages/beff-client/src/codegen-v2.ts";
import { readFileSync } from "node:fs";
import { inspect, isDeepStrictEqual } from "node:util";
export { rt };
export const P = (runtype, name = "T") => rt.buildParserFromRuntype(runtype, name, false);
export function loadGen(path, formats = {}) {
  let body = readFileSync(path, "utf8");
  const at = body.indexOf("const RequiredStringFormats");
  if (at >= 0) body = body.slice(at).replace(/export default[^\n]*\n?/, "").replace(/exports\.default[^\n]*\n?/, "") + "\nfor (const k of RequiredStringFormats) registerStringFormatter(k, (s) => s.length < 4);for (const k of RequiredNumberFormats) registerNumberFormatter(k, (n) => n >= 0);";
  let namedRuntypes;
  class RefRuntype extends rt.BaseRefRuntype { getNamedRuntypes() { return namedRuntypes; } }
  const names = Object.keys(rt);
  const f = new Function(...names, "RefRuntype", body + "\nreturn { namedRuntypes, buildParsersInput };");
  const r = f(...names.map((n) => rt[n]), RefRuntype);
  namedRuntypes = r.namedRuntypes;
  for (const [k, v] of Object.entries(formats.string ?? {})) rt.registerStringFormatter(k, v);
  for (const [k, v] of Object.entries(formats.number ?? {})) rt.registerNumberFormatter(k, v);
  const acc = {};
  for (const k of Object.keys(r.buildParsersInput)) acc[k] = P(r.buildParsersInput[k], k);
  return acc;
}
const OPTS = [undefined, { disallowExtraProperties: true }, { objectKeyOrder: "sorted" }, { disallowExtraProperties: true, objectKeyOrder: "sorted" }];
const show = (v) => inspect(v, { depth: 6, breakLength: 200, showHidden: false });
// returns list of violation strings
export function check(parser, mk, label = "") {
  const out = [];
  const say = (s) => out.push(`${label} ${s}`);
  const results = [];
  for (const o of OPTS) {
    const input = mk();
    const before = show(input);
    let v, sp, p, pThrew = false, err;
    try { v = parser.validate(input, o); } catch (e) { say(`validate threw ${e}`.slice(0, 200)); continue; }
    try { sp = parser.safeParse(input, o); } catch (e) { say(`safeParse threw (validate=${v}) ${e}`.slice(0, 200)); continue; }
    try { p = parser.parse(input, o); } catch (e) { pThrew = true; err = e; }
    if (sp.success !== v) say(`safeParse.success=${sp.success} validate=${v} opts=${show(o)}`);
    if (pThrew === v) say(`parse threw=${pThrew} validate=${v} ${err}`);
    if (pThrew && !(err instanceof Error && /^Failed to parse /.test(err.message))) say(`parse threw undocumented: ${err}`);
    if (show(input) !== before) say(`input mutated: ${before} -> ${show(input)}`);
    if (v && sp.success) {
      const d = sp.data;
      let v2; try { v2 = parser.validate(d, o); } catch (e) { say(`validate(parsed) threw ${e}`); }
      if (v2 === false) say(`parsed data rejected opts=${show(o)}: in=${before} out=${show(d)}`);
      if (v2) { try { const d2 = parser.parse(d, o); if (!isDeepStrictEqual(d2, d) || show(d2) !== show(d)) say(`reparse differs opts=${show(o)}: ${show(d)} -> ${show(d2)}`); } catch (e) { say(`reparse threw ${e}`); } }
      const why = notProjection(d, input, "$");
      if (why) say(`not a projection opts=${show(o)}: ${why}; in=${before} out=${show(d)}`);
      results.push({ o, d });
    }
  }
  // objectKeyOrder changes order only
  for (let i = 0; i + 2 < 4; i++) {
    const a = results.find((r) => r.o === OPTS[i]), b = results.find((r) => r.o === OPTS[i + 2]);
    if (a && b && !isDeepStrictEqual(a.d, b.d)) say(`objectKeyOrder changes content: input-order=${show(a.d)} sorted=${show(b.d)}`);
  }
  return out;
}
export { show };

const tag = (v) => Object.prototype.toString.call(v);
export function notProjection(d, i, path) {
  if (typeof d !== "object" || d === null || typeof i !== "object" || i === null) return Object.is(d, i) ? null : `${path}: leaf ${show(i)} became ${show(d)}`;
  if (tag(d) !== tag(i)) return `${path}: kind ${tag(i)} became ${tag(d)}`;
  if (Array.isArray(i)) {
    if (d.length !== i.length) return `${path}: length ${i.length} became ${d.length}`;
    for (let k = 0; k < i.length; k++) { if ((k in d) !== (k in i)) return `${path}[${k}]: hole/element changed`; const w = notProjection(d[k], i[k], `${path}[${k}]`); if (w) return w; }
    return null;
  }
  if (i instanceof Map) { if (d.size !== i.size) return `${path}: map size`; for (const [k, v] of d) { if (!i.has(k)) return `${path}: map key ${show(k)} invented`; const w = notProjection(v, i.get(k), `${path}.get(${show(k)})`); if (w) return w; } return null; }
  if (i instanceof Set) { if (d.size !== i.size) return `${path}: set size`; const a = [...d], b = [...i]; for (let k = 0; k < a.length; k++) { const w = notProjection(a[k], b[k], `${path}.item${k}`); if (w) return w; } return null; }
  if (tag(i) !== "[object Object]") return isDeepStrictEqual(d, i) ? null : `${path}: built-in content changed`;
  for (const k of Reflect.ownKeys(d)) {
    if (!Object.prototype.hasOwnProperty.call(i, k)) return `${path}.${String(k)}: key not in input`;
    const w = notProjection(d[k], i[k], `${path}.${String(k)}`); if (w) return w;
  }
  return null;
}

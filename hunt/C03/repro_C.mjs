// C: a tuple whose trailing element accepts undefined/null: parse invents an element that the input does not have
import { loadGen, show } from "./lib.mjs";
const P = loadGen(new URL("./repro.gen.js", import.meta.url).pathname);
for (const [name, T, v] of [["Pair = [number, string | undefined]", P.Pair, [1]], ["PairNull = [number, null]", P.PairNull, [1]], ["Pair (hole)", P.Pair, [1, , ].slice(0, 1)]]) {
  const out = T.parse(v);
  console.log(name, "input", show(v), "length", v.length, "validate", T.validate(v), "-> parse", show(out), "length", out.length, "| 1 in out:", 1 in out, "| JSON:", JSON.stringify(v), "->", JSON.stringify(out));
}

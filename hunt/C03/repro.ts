// types used by the repro_*.mjs scripts (compile with ./compile.sh repro.ts -> repro.gen.js)
type MapAnd = Map<string, { a: number }> & Map<string, { b: number }>;
type WithA = { m: Map<string, { a: number }>, s: Set<{ a: number }> };
type WithB = { m: Map<string, { b: number }>, s: Set<{ b: number }> };
type FieldAnd = WithA & WithB;
type Pair = [number, string | undefined];
type PairNull = [number, null];
type Envelope = { payload: unknown } | null;
type Plain = { payload: unknown };
type List = { v: number, next: List | null };
type Items = { items: number[] };
type Closed = { a: number };
type M = Map<string, number>;
type S = Set<string>;
parse.buildParsers<{ MapAnd: MapAnd, FieldAnd: FieldAnd, Pair: Pair, PairNull: PairNull, Envelope: Envelope, Plain: Plain, List: List, Items: Items, Closed: Closed, M: M, S: S }>();

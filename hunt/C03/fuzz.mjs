// usage: node fuzz.mjs file.gen.js [iterations] [exotic]
import { loadGen, check } from "./lib.mjs";
import { gen, setSeed, setExotic } from "./gen.mjs";
import { structuredCloneish } from "./clone.mjs";
const [file, iters = "300", ex] = process.argv.slice(2);
setExotic(ex === "exotic");
const parsers = loadGen(file);
const seen = new Map(); let nValid = 0, nTotal = 0;
for (const [name, p] of Object.entries(parsers)) {
  for (let i = 0; i < +iters; i++) {
    setSeed(i * 7919 + name.length);
    let v; try { v = gen(p._runtype); } catch (e) { console.log(name, "gen failed", String(e)); break; }
    nTotal++; try { if (p.validate(structuredCloneish(v))) nValid++; } catch {}
    const res = check(p, () => structuredCloneish(v), name);
    for (const r of res) { const key = name + "|" + r.split(/opts=|in=|:/)[0].slice(0, 50); if (!seen.has(key)) { seen.set(key, r); console.log(r.slice(0, 600)); } }
  }
}
console.log("done; distinct:", seen.size, "valid", nValid, "of", nTotal, "parsers", Object.keys(parsers).length);

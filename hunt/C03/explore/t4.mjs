// deep but finite (acyclic) JSON against (a) a union with an unknown member, (b) a recursive type
import { loadGen, show } from "../lib.mjs";
const p1 = loadGen("p1.gen.js"), p3 = loadGen("p3.gen.js");
for (const depth of [1000, 2000, 3000, 5000, 8000]) {
  const v = JSON.parse('{"payload":' + "[".repeat(depth) + "]".repeat(depth) + "}");
  let a, b;
  try { a = p1.U1.validate(v); } catch (e) { a = "threw " + e; }
  try { b = p1.U1.safeParse(v).success; } catch (e) { b = "threw " + e; }
  console.log("U1 depth", depth, "validate:", a, "safeParse:", b);
}
for (const depth of [500, 1000, 2000, 3000, 5000]) {
  const v = JSON.parse('{"v":1,"next":'.repeat(depth) + "null" + "}".repeat(depth));
  let a, b;
  try { a = p3.L.validate(v); } catch (e) { a = "threw " + e; }
  try { b = p3.L.safeParse(v).success; } catch (e) { b = "threw " + e; }
  console.log("L depth", depth, "validate:", a, "safeParse:", b);
}

type A = { z: number };
type B = { a: number };
type I3 = A & B;
type I4 = A & (B | { c: string });
type I5 = A & Record<string, number>;
type I6 = { z: number } & { [k: string]: number };
interface Base { id: string }
interface Ext extends Base { name: string }
type I7 = Ext & { z: { p: number } } & { z: { q: number } };
type I8 = { arr: { p: number }[] } & { arr: { q: number }[] };
type I9 = { t: [{ p: number }] } & { t: [{ q: number }] };
type I10 = (A | B) & (Base | { c: string });
parse.buildParsers<{ I3: I3, I4: I4, I5: I5, I6: I6, I7: I7, I8: I8, I9: I9, I10: I10 }>();

// large invalid array nested in an object: error list of the property is spread into push(...)
import { b } from "../../packages/beff-client/src/b.ts";
const T = b.Object({ items: b.Array(b.Number()) });
for (const n of [1000, 100000, 150000, 200000, 500000]) {
  const v = JSON.parse('{"items":[' + Array(n).fill('"x"').join(",") + "]}");
  let a, s, p;
  try { a = T.validate(v); } catch (e) { a = "threw " + e; }
  try { s = T.safeParse(v).success; } catch (e) { s = "threw " + e; }
  try { T.parse(v); p = "returned"; } catch (e) { p = String(e).slice(0, 90); }
  console.log(n, "validate:", a, "| safeParse:", s, "| parse:", p);
}

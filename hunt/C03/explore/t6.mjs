import { loadGen } from "../lib.mjs";
const p = loadGen("p4.gen.js");
const time = (f) => { const t = process.hrtime.bigint(); let r; try { r = f(); } catch (e) { r = "threw " + String(e).slice(0, 60); } return [r, Number(process.hrtime.bigint() - t) / 1e6 + "ms"]; };
for (const n of [1000, 5000, 20000]) console.log("Email", n, time(() => p.Email.validate("@".repeat(n))));
for (const n of [1000, 5000, 20000]) console.log("V", n, time(() => p.V.validate("v" + "1".repeat(n))));
for (const n of [10000, 50000, 100000]) {
  const v = JSON.parse("{" + Array.from({ length: n }, (_, i) => `"k${i}":1`).join(",") + ',"a":1}');
  console.log("extra keys", n, "validate", time(() => p.Strict.validate(v, { disallowExtraProperties: true })), "safeParse", time(() => p.Strict.safeParse(v, { disallowExtraProperties: true }).success));
  console.log("  nested", time(() => p.Nested.safeParse({ inner: v }, { disallowExtraProperties: true }).success));
}

import { loadGen, check, show } from "../lib.mjs";
const p = loadGen(new URL("./p_proto.gen.js", import.meta.url).pathname);
for (const v of [{ kind: "__proto__", a: 1 }, { kind: "constructor", b: 1 }, { kind: "k", c: 1 }]) {
  console.log(show(v), p.D3.validate(v), show(p.D3.safeParse(v)));
}

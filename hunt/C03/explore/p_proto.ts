type D3 = { kind: "__proto__", a: number } | { kind: "constructor", b: number } | { kind: "k", c: number };
parse.buildParsers<{ D3: D3 }>();

type Email = `${string}@${string}.${string}`;
type V = `v${number}.${number}.${number}`;
type Strict = { a: number };
parse.buildParsers<{ Email: Email, V: V, Strict: Strict, Nested: { inner: Strict } }>();

// hostile top-level values against every parser of a generated module: any throw other than the documented one?
import { loadGen, show } from "../lib.mjs";
const files = process.argv.slice(2);
class K { constructor() { this.a = 1; } get g() { return 1; } }
const hostile = {
  nullProto: () => Object.create(null),
  nullProtoKeys: () => Object.assign(Object.create(null), { a: 1, type: "a", kind: "k" }),
  fakeMap: () => Object.create(Map.prototype),
  fakeSet: () => Object.create(Set.prototype),
  fakeDate: () => Object.create(Date.prototype),
  fakeArr: () => Object.create(Array.prototype),
  sym: () => Symbol("s"),
  fn: () => function f() {},
  big: () => 10n,
  klass: () => new K(),
  ownProto: () => JSON.parse('{"__proto__": {"a": 1}, "type": "__proto__", "kind":"toString"}'),
  mapNullProtoKey: () => new Map([[Object.create(null), Object.create(null)]]),
  setSym: () => new Set([Symbol("x")]),
  arrHuge: () => { const a = []; a[5] = 1; return a; },
  nested: () => ({ a: Object.create(null), b: [Object.create(null)], type: { toString: null }, kind: { toString() { throw new Error("boom"); } } }),
  toStringNull: () => ({ toString: null, valueOf: null }),
  arrToStringNull: () => [Object.assign(Object.create(null), { x: 1n })],
  symKeyObj: () => ({ [Symbol("k")]: 1, type: Symbol("t"), kind: Symbol("k"), t: Symbol("q") }),
  discObj: () => ({ type: {}, kind: [], t: Object.create(null), _tag: Object.create(null) }),
};
for (const f of files) {
  const ps = loadGen(f);
  for (const [name, p] of Object.entries(ps)) for (const [hn, mk] of Object.entries(hostile)) for (const o of [undefined, { disallowExtraProperties: true, objectKeyOrder: "sorted" }]) {
    let v;
    try { v = p.validate(mk(), o); } catch (e) { console.log(`${f} ${name} ${hn}: validate threw ${e}`); continue; }
    try { p.safeParse(mk(), o); } catch (e) { console.log(`${f} ${name} ${hn}: safeParse threw (validate=${v}) ${e}`); continue; }
    try { p.parse(mk(), o); if (!v) console.log(`${name} ${hn}: parse returned but validate false`); } catch (e) { if (v || !/^Failed to parse/.test(e.message ?? "")) console.log(`${f} ${name} ${hn}: parse threw (validate=${v}) ${String(e).slice(0, 150)}`); }
  }
}

import { rt, P, check, show } from "../lib.mjs";
const { ObjectRuntype: O, TypeofRuntype: T, AnyOfRuntype: U, AllOfRuntype: I, MapRuntype, SetRuntype, ArrayRuntype: A, TupleRuntype, AnyRuntype, NullishRuntype, OptionalFieldRuntype: Opt, ConstRuntype: C, TypedArrayRuntype, DateRuntype } = rt;
const str = new T(undefined, "string"), num = new T(undefined, "number"), any = new AnyRuntype(undefined), nul = new NullishRuntype(undefined, "null"), und = new NullishRuntype(undefined, "undefined");
const run = (name, p, mk) => { const r = check(P(p, name), mk, name); console.log(name, r.length ? "\n  " + r.join("\n  ") : "ok"); };
// H: intersection of Maps with different value projections
run("MapAnd", new I(undefined, [new MapRuntype(undefined, str, new O(undefined, { a: num }, [])), new MapRuntype(undefined, str, new O(undefined, { b: num }, []))]), () => new Map([["k", { a: 1, b: 2 }]]));
run("SetAnd", new I(undefined, [new SetRuntype(undefined, new O(undefined, { a: num }, [])), new SetRuntype(undefined, new O(undefined, { b: num }, []))]), () => new Set([{ a: 1, b: 2 }]));
// tuple with undefined-accepting element
run("TupleUndef", new TupleRuntype(undefined, [num, new U(undefined, [str, und])], null), () => [1]);
// non-enumerable own property
run("NonEnum", new O(undefined, { a: str }, []), () => Object.defineProperty({}, "a", { value: "x", enumerable: false }));
// any | string with ArrayBuffer
run("AnyUnionArrayBuffer", new U(undefined, [new O(undefined, { a: any }, []), nul]), () => ({ a: new ArrayBuffer(4) }));
run("UnionAnyBuf", new U(undefined, [any, nul]), () => new ArrayBuffer(4));
run("UnionAnySparse", new U(undefined, [new A(undefined, any), nul]), () => [, 1]);
// union key order sorted
run("UnionSorted", new U(undefined, [new O(undefined, { b: num, z: num }, []), new O(undefined, { a: num, b: num }, [])]), () => ({ z: 1, b: 2, a: 3 }));
console.log(Object.keys(P(new U(undefined, [new O(undefined, { b: num, z: num }, []), new O(undefined, { a: num, b: num }, [])])).parse({ z: 1, b: 2, a: 3 }, { objectKeyOrder: "sorted" })));
console.log(Object.keys(P(new I(undefined, [new O(undefined, { z: num }, []), new O(undefined, { a: num }, [])])).parse({ z: 1, a: 3 }, { objectKeyOrder: "sorted" })));

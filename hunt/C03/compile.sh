#!/bin/sh
# usage: compile.sh a.ts [b.ts ...]  -> writes a.gen.js next to each source
SRC=""; OUT=""
for f in "$@"; do a=$(realpath "$f"); SRC="$SRC,$a"; OUT="$OUT,${a%.ts}.gen.js"; done
cd /tmp/hunt-C03
CARGO_NET_OFFLINE=true CARGO_TARGET_DIR=/tmp/hunt-C03/target RUST_BACKTRACE=0 HUNT_SRC="${SRC#,}" HUNT_OUT="${OUT#,}" cargo test -q -p beff-core --test hunt_c03 2>&1 | grep -v "^$" | grep -v "^running\|^test result\|^\.$" 

// F: an object that inherits from Map.prototype / Set.prototype without being a Map / Set: validate throws TypeError
import { loadGen } from "./lib.mjs";
const P = loadGen(new URL("./repro.gen.js", import.meta.url).pathname);
const attempt = (f) => { try { return String(f()); } catch (e) { return "THREW " + e.constructor.name + ": " + e.message; } };
for (const [name, T, v] of [["Map<string, number>", P.M, Object.create(Map.prototype)], ["Set<string>", P.S, Object.create(Set.prototype)]]) {
  console.log(name, "validate:", attempt(() => T.validate(v)), "| safeParse:", attempt(() => T.safeParse(v).success), "| parse:", attempt(() => T.parse(v)));
}

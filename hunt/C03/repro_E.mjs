// E: a value in an `unknown` slot is returned as is by parse, unless the slot sits below a union: then every object that is
// not Date/RegExp/Map/Set/typed array is rebuilt as a plain object from its own enumerable string keys
import { loadGen, show } from "./lib.mjs";
const P = loadGen(new URL("./repro.gen.js", import.meta.url).pathname);
class Money { constructor() { this.cents = 5; } toString() { return "0.05"; } }
const mk = { ArrayBuffer: () => new Uint8Array([1, 2, 3]).buffer, Error: () => new Error("boom"), URL: () => new URL("http://x/y"), classInstance: () => new Money(), boxedNumber: () => new Number(7), sparseArray: () => [, 1], symbolKey: () => ({ [Symbol.for("s")]: 1 }), DataViewOk: () => new DataView(new ArrayBuffer(1)) };
for (const [k, f] of Object.entries(mk)) {
  const v = { payload: f() };
  const plain = P.Plain.parse(v).payload, env = P.Envelope.parse(v).payload;
  console.log(k.padEnd(14), "Plain:", show(plain).slice(0, 60).padEnd(62), "same object:", plain === v.payload, "| Envelope ({payload: unknown} | null):", show(env).slice(0, 50), "kind kept:", Object.prototype.toString.call(env) === Object.prototype.toString.call(v.payload) && Object.getPrototypeOf(env) === Object.getPrototypeOf(v.payload));
}

// hunt helper: compile the TypeScript program named by HUNT_SRC and write the generated module body to HUNT_OUT
use beff_core::test_tools::print_cgen;
#[test]
fn hunt_compile() {
    let src = std::env::var("HUNT_SRC").expect("HUNT_SRC");
    let out = std::env::var("HUNT_OUT").expect("HUNT_OUT");
    for (s, o) in src.split(',').zip(out.split(',')) {
        let from = std::fs::read_to_string(s).unwrap();
        let code = print_cgen(&from);
        std::fs::write(o, code).unwrap();
    }
}

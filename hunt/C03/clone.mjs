// deep copy that preserves own "__proto__" keys, -0, NaN, built-ins (so that each option run gets a fresh input)
export function structuredCloneish(v) {
  if (typeof v !== "object" || v === null) return v;
  if (Array.isArray(v)) { const o = new Array(v.length); for (const k of Object.keys(v)) o[k] = structuredCloneish(v[k]); return o; }
  if (v instanceof Date) return new Date(v.getTime());
  if (v instanceof Map) return new Map([...v].map(([k, x]) => [structuredCloneish(k), structuredCloneish(x)]));
  if (v instanceof Set) return new Set([...v].map(structuredCloneish));
  if (ArrayBuffer.isView(v)) return v.slice();
  if (v instanceof ArrayBuffer) return v.slice(0);
  const o = Object.create(Object.getPrototypeOf(v));
  for (const k of Reflect.ownKeys(v)) Object.defineProperty(o, k, { ...Object.getOwnPropertyDescriptor(v, k), value: structuredCloneish(v[k]) });
  return o;
}

// A: a long invalid array below an object property makes safeParse/parse throw RangeError (validate returns false)
import { b } from "../packages/beff-client/src/b.ts";
import { loadGen } from "./lib.mjs";
const adhoc = b.Object({ items: b.Array(b.Number()) });
const compiled = loadGen(new URL("./repro.gen.js", import.meta.url).pathname).Items;
const n = Number(process.argv[2] ?? 200000);
const json = '{"items":[' + Array(n).fill('"x"').join(",") + "]}";
console.log("input: JSON document of", json.length, "bytes,", n, "wrong-typed items");
for (const [name, T] of [["b.Object({items: b.Array(b.Number())})", adhoc], ["compiled { items: number[] }", compiled]]) {
  const v = JSON.parse(json);
  console.log(name);
  console.log("  validate  ->", T.validate(v));
  try { console.log("  safeParse ->", T.safeParse(v).success); } catch (e) { console.log("  safeParse THREW", e.constructor.name + ":", e.message); }
  try { T.parse(v); } catch (e) { console.log("  parse     THREW", e.constructor.name + ":", e.message.slice(0, 70)); }
}
// second manifestation of the same unbounded error list: quadratic time with disallowExtraProperties
const Closed = loadGen(new URL("./repro.gen.js", import.meta.url).pathname).Closed;
for (const k of [20000, 40000, 80000]) {
  const v = JSON.parse("{" + Array.from({ length: k }, (_, i) => `"k${i}":1`).join(",") + ',"a":1}');
  const t0 = Date.now(); const ok = Closed.validate(v, { disallowExtraProperties: true }); const t1 = Date.now();
  const r = Closed.safeParse(v, { disallowExtraProperties: true }); const t2 = Date.now();
  console.log(`extra keys ${k}: validate=${ok} in ${t1 - t0}ms, safeParse.success=${r.success} in ${t2 - t1}ms (errors kept: ${r.errors.length})`);
}

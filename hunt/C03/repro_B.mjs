// B: intersection whose members project the values of a Map / Set differently: parse keeps only the last member's projection
import { loadGen, show } from "./lib.mjs";
const P = loadGen(new URL("./repro.gen.js", import.meta.url).pathname);
const cases = [
  ["MapAnd   = Map<string,{a:number}> & Map<string,{b:number}>", P.MapAnd, () => new Map([["k", { a: 1, b: 2 }]])],
  ["FieldAnd = {m: Map<string,{a}>, s: Set<{a}>} & {m: Map<string,{b}>, s: Set<{b}>}", P.FieldAnd, () => ({ m: new Map([["k", { a: 1, b: 2 }]]), s: new Set([{ a: 1, b: 2 }]) })],
];
for (const [name, T, mk] of cases) {
  const v = mk();
  const out = T.parse(v);
  console.log(name);
  console.log("  input            ", show(v), " validate:", T.validate(v));
  console.log("  parse(input)     ", show(out));
  console.log("  validate(parsed) ", T.validate(out), "<- must be true");
  const again = T.safeParse(out);
  console.log("  safeParse(parsed)", again.success ? "ok" : show(again.errors[0]));
}

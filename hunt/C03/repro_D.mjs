// D: a finite (acyclic) JSON document nested a few thousand levels deep: validate answers true, safeParse/parse throw RangeError
import { loadGen } from "./lib.mjs";
const P = loadGen(new URL("./repro.gen.js", import.meta.url).pathname);
const attempt = (f) => { try { return String(f()); } catch (e) { return "THREW " + e.constructor.name + ": " + e.message; } };
// the exact threshold depends on the stack size: scan for the window where validate still answers but safeParse overflows
for (let depth = 1000; depth <= 6000; depth += 100) {
  const json = '{"v":1,"next":'.repeat(depth) + "null" + "}".repeat(depth);
  const v = JSON.parse(json);
  const a = attempt(() => P.List.validate(v)), b = attempt(() => P.List.safeParse(v).success);
  if (a !== b) { console.log(`List depth ${depth} (${json.length} bytes): validate=${a} safeParse=${b} parse=${attempt(() => typeof P.List.parse(v))}`); break; }
}
for (const depth of [3000, 5000, 8000]) {
  const json = '{"payload":' + "[".repeat(depth) + "]".repeat(depth) + "}";
  const v = JSON.parse(json);
  console.log(`Envelope depth ${depth} (${json.length} bytes): validate=${attempt(() => P.Envelope.validate(v))} safeParse=${attempt(() => P.Envelope.safeParse(v).success)} | same value, Plain (no union): safeParse=${attempt(() => P.Plain.safeParse(v).success)}`);
}

// loader hooks: map ./x.js -> ./x.ts inside beff-client/src, stub zod
import { existsSync } from "node:fs";
import { fileURLToPath } from "node:url";
export async function resolve(specifier, context, nextResolve) {
  if (specifier === "zod") {
    return { url: "data:text/javascript,export const z={custom:(f)=>({_f:f})};", shortCircuit: true };
  }
  if (specifier.startsWith(".") && specifier.endsWith(".js") && context.parentURL?.startsWith("file:")) {
    const u = new URL(specifier.replace(/\.js$/, ".ts"), context.parentURL);
    if (existsSync(fileURLToPath(u))) return { url: u.href, shortCircuit: true };
  }
  return nextResolve(specifier, context);
}
import { readFileSync } from "node:fs";
import { stripTypeScriptTypes } from "node:module";
export async function load(url, context, nextLoad) {
  if (url.startsWith("file:") && url.endsWith(".ts") && url.includes("/beff-client/src/")) {
    let src = readFileSync(fileURLToPath(url), "utf8");
    // type-only modules imported without the `type` keyword: drop those imports
    src = src.replace(/import\s*\{[^}]*\}\s*from\s*"\.\/(types|json-schema)\.js";/g, (m) => m.replace(/[^\n]/g, " "));
    src = src.replace(/^\s*Runtype,\s*$/m, "");
    return { format: "module-typescript", source: src, shortCircuit: true };
  }
  return nextLoad(url, context);
}

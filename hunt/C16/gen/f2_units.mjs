import {
  TypeofRuntype, AnyRuntype, NullishRuntype, NeverRuntype, ConstRuntype, RegexRuntype, DateRuntype,
  BigIntRuntype, StringWithFormatRuntype, NumberWithFormatRuntype, AnyOfConstsRuntype, TupleRuntype,
  AllOfRuntype, AnyOfRuntype, ArrayRuntype, AnyOfDiscriminatedRuntype, ObjectRuntype,
  OptionalFieldRuntype, BaseRefRuntype, registerStringFormatter, registerNumberFormatter,
  buildParserFromRuntype, generateHashFromString, TypedArrayRuntype, MapRuntype, SetRuntype,
} from "@beff/client/codegen-v2";
class RefRuntype extends BaseRefRuntype { getNamedRuntypes() { return namedRuntypes; } }
const direct_hoist_0 = new RefRuntype(undefined, "Metric");
const direct_hoist_1 = new RefRuntype(undefined, "Imperial");
const direct_hoist_2 = new TypeofRuntype(undefined, "number");
const direct_hoist_3 = new ObjectRuntype({
    "description": "a length in centimetres"
}, {
    "n": direct_hoist_2
}, []);
const direct_hoist_4 = new ConstRuntype(undefined, "len");
const direct_hoist_5 = new RefRuntype(undefined, "Inch");
const direct_hoist_6 = new ObjectRuntype(undefined, {
    "unit": direct_hoist_4,
    "value": direct_hoist_5
}, []);
const direct_hoist_7 = new ConstRuntype(undefined, "none");
const direct_hoist_8 = new ObjectRuntype(undefined, {
    "unit": direct_hoist_7
}, []);
const direct_hoist_9 = new AnyOfDiscriminatedRuntype(undefined, [
    direct_hoist_6,
    direct_hoist_8
], "unit", {
    "len": direct_hoist_6,
    "none": direct_hoist_8
}, {
    "len": direct_hoist_6,
    "none": direct_hoist_8
});
const direct_hoist_10 = new ObjectRuntype({
    "description": "a length in inches"
}, {
    "n": direct_hoist_2
}, []);
const direct_hoist_11 = new RefRuntype(undefined, "Cm");
const direct_hoist_12 = new ObjectRuntype(undefined, {
    "unit": direct_hoist_4,
    "value": direct_hoist_11
}, []);
const direct_hoist_13 = new AnyOfDiscriminatedRuntype(undefined, [
    direct_hoist_12,
    direct_hoist_8
], "unit", {
    "len": direct_hoist_12,
    "none": direct_hoist_8
}, {
    "len": direct_hoist_12,
    "none": direct_hoist_8
});
const namedRuntypes = {
    "Cm": direct_hoist_3,
    "Imperial": direct_hoist_9,
    "Inch": direct_hoist_10,
    "Metric": direct_hoist_13
};
const buildParsersInput = {
    "Metric": direct_hoist_0,
    "Imperial": direct_hoist_1
};

export const parsers = {};
for (const k of Object.keys(buildParsersInput)) parsers[k] = buildParserFromRuntype(buildParsersInput[k], k, false);
export { namedRuntypes };

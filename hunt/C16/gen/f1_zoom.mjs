import {
  TypeofRuntype, AnyRuntype, NullishRuntype, NeverRuntype, ConstRuntype, RegexRuntype, DateRuntype,
  BigIntRuntype, StringWithFormatRuntype, NumberWithFormatRuntype, AnyOfConstsRuntype, TupleRuntype,
  AllOfRuntype, AnyOfRuntype, ArrayRuntype, AnyOfDiscriminatedRuntype, ObjectRuntype,
  OptionalFieldRuntype, BaseRefRuntype, registerStringFormatter, registerNumberFormatter,
  buildParserFromRuntype, generateHashFromString, TypedArrayRuntype, MapRuntype, SetRuntype,
} from "@beff/client/codegen-v2";
class RefRuntype extends BaseRefRuntype { getNamedRuntypes() { return namedRuntypes; } }
const direct_hoist_0 = new RefRuntype(undefined, "Zoom1");
const direct_hoist_1 = new RefRuntype(undefined, "Zoom2");
const direct_hoist_2 = new ConstRuntype(undefined, "reset");
const direct_hoist_3 = new ObjectRuntype(undefined, {
    "kind": direct_hoist_2
}, []);
const direct_hoist_4 = new AnyOfConstsRuntype(undefined, [
    0.5,
    2
]);
const direct_hoist_5 = new ConstRuntype(undefined, "zoom");
const direct_hoist_6 = new ObjectRuntype(undefined, {
    "factor": direct_hoist_4,
    "kind": direct_hoist_5
}, []);
const direct_hoist_7 = new AnyOfDiscriminatedRuntype(undefined, [
    direct_hoist_6,
    direct_hoist_3
], "kind", {
    "reset": direct_hoist_3,
    "zoom": direct_hoist_6
}, {
    "reset": direct_hoist_3,
    "zoom": direct_hoist_6
});
const direct_hoist_8 = new AnyOfConstsRuntype(undefined, [
    0.25,
    2
]);
const direct_hoist_9 = new ObjectRuntype(undefined, {
    "factor": direct_hoist_8,
    "kind": direct_hoist_5
}, []);
const direct_hoist_10 = new AnyOfDiscriminatedRuntype(undefined, [
    direct_hoist_9,
    direct_hoist_3
], "kind", {
    "reset": direct_hoist_3,
    "zoom": direct_hoist_9
}, {
    "reset": direct_hoist_3,
    "zoom": direct_hoist_9
});
const namedRuntypes = {
    "Zoom1": direct_hoist_7,
    "Zoom2": direct_hoist_10
};
const buildParsersInput = {
    "Zoom1": direct_hoist_0,
    "Zoom2": direct_hoist_1
};

export const parsers = {};
for (const k of Object.keys(buildParsersInput)) parsers[k] = buildParserFromRuntype(buildParsersInput[k], k, false);
export { namedRuntypes };

import {
  TypeofRuntype, AnyRuntype, NullishRuntype, NeverRuntype, ConstRuntype, RegexRuntype, DateRuntype,
  BigIntRuntype, StringWithFormatRuntype, NumberWithFormatRuntype, AnyOfConstsRuntype, TupleRuntype,
  AllOfRuntype, AnyOfRuntype, ArrayRuntype, AnyOfDiscriminatedRuntype, ObjectRuntype,
  OptionalFieldRuntype, BaseRefRuntype, registerStringFormatter, registerNumberFormatter,
  buildParserFromRuntype, generateHashFromString, TypedArrayRuntype, MapRuntype, SetRuntype,
} from "@beff/client/codegen-v2";
class RefRuntype extends BaseRefRuntype { getNamedRuntypes() { return namedRuntypes; } }
const direct_hoist_0 = new RefRuntype(undefined, "Pet");
const direct_hoist_1 = new RefRuntype(undefined, "Person");
const direct_hoist_2 = new RefRuntype(undefined, "Painted");
const direct_hoist_3 = new RefRuntype(undefined, "Cat");
const direct_hoist_4 = new RefRuntype(undefined, "Tree_string");
const direct_hoist_5 = new RefRuntype(undefined, "Tree_Pet");
const direct_hoist_6 = new RefRuntype(undefined, "Dog");
const direct_hoist_7 = new AnyOfDiscriminatedRuntype(undefined, [
    direct_hoist_3,
    direct_hoist_6
], "kind", {
    "cat": direct_hoist_3,
    "dog": direct_hoist_6,
    "puppy": direct_hoist_6
}, {
    "cat": direct_hoist_3,
    "dog": direct_hoist_6,
    "puppy": direct_hoist_6
});
const direct_hoist_8 = new TypeofRuntype(undefined, "string");
const direct_hoist_9 = new ArrayRuntype(undefined, direct_hoist_0);
const direct_hoist_10 = new TupleRuntype(undefined, [
    direct_hoist_0
], direct_hoist_1);
const direct_hoist_11 = new ObjectRuntype(undefined, {
    "best": new OptionalFieldRuntype(direct_hoist_7),
    "name": new OptionalFieldRuntype(direct_hoist_8),
    "pets": new OptionalFieldRuntype(direct_hoist_9),
    "spouse": new OptionalFieldRuntype(direct_hoist_1),
    "t": new OptionalFieldRuntype(direct_hoist_10)
}, []);
const direct_hoist_12 = new ConstRuntype(undefined, "cat");
const direct_hoist_13 = new NullishRuntype(undefined, "null");
const direct_hoist_14 = new AnyOfRuntype(undefined, [
    direct_hoist_13,
    direct_hoist_1
]);
const direct_hoist_15 = new ObjectRuntype(undefined, {
    "kind": direct_hoist_12,
    "owner": direct_hoist_14
}, []);
const direct_hoist_16 = new ObjectRuntype(undefined, {
    "a": direct_hoist_0,
    "b": direct_hoist_11,
    "c": direct_hoist_15
}, []);
const direct_hoist_17 = new NullishRuntype(undefined, "undefined");
const direct_hoist_18 = new AnyOfRuntype(undefined, [
    direct_hoist_17,
    direct_hoist_0
]);
const direct_hoist_19 = new ObjectRuntype(undefined, {}, [
    {
        "key": direct_hoist_8,
        "value": direct_hoist_18
    }
]);
const direct_hoist_20 = new ObjectRuntype(undefined, {
    "id": direct_hoist_8,
    "tags": direct_hoist_19
}, []);
const direct_hoist_21 = new ObjectRuntype(undefined, {
    "friends": direct_hoist_9,
    "kind": direct_hoist_12,
    "owner": direct_hoist_14
}, []);
const direct_hoist_22 = new AnyOfConstsRuntype(undefined, [
    "blue",
    "red"
]);
const direct_hoist_23 = new AnyOfConstsRuntype(undefined, [
    "dog",
    "puppy"
]);
const direct_hoist_24 = new ArrayRuntype(undefined, direct_hoist_6);
const direct_hoist_25 = new ObjectRuntype(undefined, {
    "kind": direct_hoist_23,
    "owner": direct_hoist_14,
    "pack": new OptionalFieldRuntype(direct_hoist_24)
}, []);
const direct_hoist_26 = new ConstRuntype(undefined, "fish");
const direct_hoist_27 = new ObjectRuntype(undefined, {
    "kind": direct_hoist_26,
    "tank": direct_hoist_5
}, []);
const direct_hoist_28 = new RefRuntype(undefined, "Base");
const direct_hoist_29 = new AllOfRuntype(undefined, [
    direct_hoist_27,
    direct_hoist_28
]);
const direct_hoist_30 = new RefRuntype(undefined, "Color");
const direct_hoist_31 = new RefRuntype(undefined, "Color__Red");
const direct_hoist_32 = new ObjectRuntype(undefined, {
    "color": direct_hoist_30,
    "only": direct_hoist_31,
    "who": direct_hoist_1
}, []);
const direct_hoist_33 = new ConstRuntype(undefined, "none");
const direct_hoist_34 = new ObjectRuntype(undefined, {
    "color": direct_hoist_33,
    "pet": direct_hoist_0
}, []);
const direct_hoist_35 = new AnyOfDiscriminatedRuntype(undefined, [
    direct_hoist_34,
    direct_hoist_32
], "color", {
    "blue": direct_hoist_32,
    "none": direct_hoist_34,
    "red": direct_hoist_32
}, {
    "blue": direct_hoist_32,
    "none": direct_hoist_34,
    "red": direct_hoist_32
});
const direct_hoist_36 = new ObjectRuntype(undefined, {
    "best": new OptionalFieldRuntype(direct_hoist_7),
    "name": direct_hoist_8,
    "pets": direct_hoist_9,
    "spouse": new OptionalFieldRuntype(direct_hoist_1),
    "t": direct_hoist_10
}, []);
const direct_hoist_37 = new ObjectRuntype(undefined, {
    "id": direct_hoist_8,
    "kind": direct_hoist_26,
    "tags": direct_hoist_19,
    "tank": direct_hoist_5
}, []);
const direct_hoist_38 = new RefRuntype(undefined, "Fish");
const direct_hoist_39 = new AnyOfDiscriminatedRuntype(undefined, [
    direct_hoist_38,
    direct_hoist_3,
    direct_hoist_6
], "kind", {
    "cat": direct_hoist_3,
    "dog": direct_hoist_6,
    "fish": direct_hoist_37,
    "puppy": direct_hoist_6
}, {
    "cat": direct_hoist_3,
    "dog": direct_hoist_6,
    "fish": direct_hoist_37,
    "puppy": direct_hoist_6
});
const direct_hoist_40 = new ArrayRuntype(undefined, direct_hoist_4);
const direct_hoist_41 = new ObjectRuntype(undefined, {
    "children": direct_hoist_40,
    "parent": new OptionalFieldRuntype(direct_hoist_4),
    "value": direct_hoist_8
}, []);
const direct_hoist_42 = new ArrayRuntype(undefined, direct_hoist_5);
const direct_hoist_43 = new ObjectRuntype(undefined, {
    "children": direct_hoist_42,
    "parent": new OptionalFieldRuntype(direct_hoist_5),
    "value": direct_hoist_0
}, []);
const direct_hoist_44 = new ConstRuntype(undefined, "red");
const namedRuntypes = {
    "Base": direct_hoist_20,
    "Cat": direct_hoist_21,
    "Color": direct_hoist_22,
    "Dog": direct_hoist_25,
    "Fish": direct_hoist_29,
    "Painted": direct_hoist_35,
    "Person": direct_hoist_36,
    "Pet": direct_hoist_39,
    "Tree_string": direct_hoist_41,
    "Tree_Pet": direct_hoist_43,
    "Color__Red": direct_hoist_44
};
const buildParsersInput = {
    "Pet": direct_hoist_0,
    "Person": direct_hoist_1,
    "Painted": direct_hoist_2,
    "Cat": direct_hoist_3,
    "StrTree": direct_hoist_4,
    "PetTree": direct_hoist_5,
    "Inline": direct_hoist_16
};

export const parsers = {};
for (const k of Object.keys(buildParsersInput)) parsers[k] = buildParserFromRuntype(buildParsersInput[k], k, false);
export { namedRuntypes };

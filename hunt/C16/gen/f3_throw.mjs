import {
  TypeofRuntype, AnyRuntype, NullishRuntype, NeverRuntype, ConstRuntype, RegexRuntype, DateRuntype,
  BigIntRuntype, StringWithFormatRuntype, NumberWithFormatRuntype, AnyOfConstsRuntype, TupleRuntype,
  AllOfRuntype, AnyOfRuntype, ArrayRuntype, AnyOfDiscriminatedRuntype, ObjectRuntype,
  OptionalFieldRuntype, BaseRefRuntype, registerStringFormatter, registerNumberFormatter,
  buildParserFromRuntype, generateHashFromString, TypedArrayRuntype, MapRuntype, SetRuntype,
} from "@beff/client/codegen-v2";
class RefRuntype extends BaseRefRuntype { getNamedRuntypes() { return namedRuntypes; } }
const direct_hoist_0 = new RefRuntype(undefined, "Post");
const direct_hoist_1 = new RefRuntype(undefined, "Author");
const direct_hoist_2 = new RefRuntype(undefined, "Comment");
const direct_hoist_3 = new TypeofRuntype(undefined, "string");
const direct_hoist_4 = new ArrayRuntype(undefined, direct_hoist_0);
const direct_hoist_5 = new ObjectRuntype(undefined, {
    "name": direct_hoist_3,
    "posts": direct_hoist_4
}, []);
const direct_hoist_6 = new ObjectRuntype(undefined, {
    "by": direct_hoist_1,
    "text": direct_hoist_3
}, []);
const direct_hoist_7 = new DateRuntype(undefined);
const direct_hoist_8 = new ObjectRuntype(undefined, {
    "author": direct_hoist_1,
    "publishedAt": direct_hoist_7,
    "title": direct_hoist_3
}, []);
const namedRuntypes = {
    "Author": direct_hoist_5,
    "Comment": direct_hoist_6,
    "Post": direct_hoist_8
};
const buildParsersInput = {
    "Post": direct_hoist_0,
    "Author": direct_hoist_1,
    "Comment": direct_hoist_2
};

export const parsers = {};
for (const k of Object.keys(buildParsersInput)) parsers[k] = buildParserFromRuntype(buildParsersInput[k], k, false);
export { namedRuntypes };

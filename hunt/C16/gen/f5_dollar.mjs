import {
  TypeofRuntype, AnyRuntype, NullishRuntype, NeverRuntype, ConstRuntype, RegexRuntype, DateRuntype,
  BigIntRuntype, StringWithFormatRuntype, NumberWithFormatRuntype, AnyOfConstsRuntype, TupleRuntype,
  AllOfRuntype, AnyOfRuntype, ArrayRuntype, AnyOfDiscriminatedRuntype, ObjectRuntype,
  OptionalFieldRuntype, BaseRefRuntype, registerStringFormatter, registerNumberFormatter,
  buildParserFromRuntype, generateHashFromString, TypedArrayRuntype, MapRuntype, SetRuntype,
} from "@beff/client/codegen-v2";
class RefRuntype extends BaseRefRuntype { getNamedRuntypes() { return namedRuntypes; } }
const direct_hoist_0 = new RefRuntype(undefined, "Invoice");
const direct_hoist_1 = new RefRuntype(undefined, "Price$");
const direct_hoist_2 = new RefRuntype(undefined, "Price$$");
const direct_hoist_3 = new ObjectRuntype(undefined, {
    "note": direct_hoist_1,
    "total": direct_hoist_2
}, []);
const direct_hoist_4 = new TypeofRuntype(undefined, "string");
const direct_hoist_5 = new ObjectRuntype(undefined, {
    "label": direct_hoist_4
}, []);
const direct_hoist_6 = new TypeofRuntype(undefined, "number");
const direct_hoist_7 = new ObjectRuntype(undefined, {
    "cents": direct_hoist_6
}, []);
const namedRuntypes = {
    "Invoice": direct_hoist_3,
    "Price$": direct_hoist_5,
    "Price$$": direct_hoist_7
};
const buildParsersInput = {
    "Invoice": direct_hoist_0
};

export const parsers = {};
for (const k of Object.keys(buildParsersInput)) parsers[k] = buildParserFromRuntype(buildParsersInput[k], k, false);
export { namedRuntypes };

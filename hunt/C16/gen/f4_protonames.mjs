import {
  TypeofRuntype, AnyRuntype, NullishRuntype, NeverRuntype, ConstRuntype, RegexRuntype, DateRuntype,
  BigIntRuntype, StringWithFormatRuntype, NumberWithFormatRuntype, AnyOfConstsRuntype, TupleRuntype,
  AllOfRuntype, AnyOfRuntype, ArrayRuntype, AnyOfDiscriminatedRuntype, ObjectRuntype,
  OptionalFieldRuntype, BaseRefRuntype, registerStringFormatter, registerNumberFormatter,
  buildParserFromRuntype, generateHashFromString, TypedArrayRuntype, MapRuntype, SetRuntype,
} from "@beff/client/codegen-v2";
class RefRuntype extends BaseRefRuntype { getNamedRuntypes() { return namedRuntypes; } }
const direct_hoist_0 = new RefRuntype(undefined, "Holder");
const direct_hoist_1 = new RefRuntype(undefined, "constructor");
const direct_hoist_2 = new RefRuntype(undefined, "__proto__");
const direct_hoist_3 = new RefRuntype(undefined, "valueOf");
const direct_hoist_4 = new ObjectRuntype(undefined, {
    "c": direct_hoist_1,
    "p": direct_hoist_2,
    "v": direct_hoist_3
}, []);
const direct_hoist_5 = new TypeofRuntype(undefined, "number");
const direct_hoist_6 = new ObjectRuntype(undefined, {
    "next": new OptionalFieldRuntype(direct_hoist_2),
    "y": direct_hoist_5
}, []);
const direct_hoist_7 = new TypeofRuntype(undefined, "string");
const direct_hoist_8 = new ObjectRuntype(undefined, {
    "x": direct_hoist_7
}, []);
const direct_hoist_9 = new AnyOfConstsRuntype(undefined, [
    "a",
    "b"
]);
const namedRuntypes = {
    "Holder": direct_hoist_4,
    "__proto__": direct_hoist_6,
    "constructor": direct_hoist_8,
    "valueOf": direct_hoist_9
};
const buildParsersInput = {
    "Holder": direct_hoist_0,
    "constructor": direct_hoist_1
};

export const parsers = {};
for (const k of Object.keys(buildParsersInput)) parsers[k] = buildParserFromRuntype(buildParsersInput[k], k, false);
export { namedRuntypes };

import {
  TypeofRuntype, AnyRuntype, NullishRuntype, NeverRuntype, ConstRuntype, RegexRuntype, DateRuntype,
  BigIntRuntype, StringWithFormatRuntype, NumberWithFormatRuntype, AnyOfConstsRuntype, TupleRuntype,
  AllOfRuntype, AnyOfRuntype, ArrayRuntype, AnyOfDiscriminatedRuntype, ObjectRuntype,
  OptionalFieldRuntype, BaseRefRuntype, registerStringFormatter, registerNumberFormatter,
  buildParserFromRuntype, generateHashFromString, TypedArrayRuntype, MapRuntype, SetRuntype,
} from "@beff/client/codegen-v2";
class RefRuntype extends BaseRefRuntype { getNamedRuntypes() { return namedRuntypes; } }
const direct_hoist_0 = new RefRuntype(undefined, "U1");
const direct_hoist_1 = new RefRuntype(undefined, "U2");
const direct_hoist_2 = new ConstRuntype(undefined, "a");
const direct_hoist_3 = new ConstRuntype(undefined, "Aa");
const direct_hoist_4 = new ObjectRuntype(undefined, {
    "kind": direct_hoist_2,
    "v": direct_hoist_3
}, []);
const direct_hoist_5 = new ConstRuntype(undefined, "b");
const direct_hoist_6 = new TypeofRuntype(undefined, "number");
const direct_hoist_7 = new ObjectRuntype(undefined, {
    "kind": direct_hoist_5,
    "n": direct_hoist_6
}, []);
const direct_hoist_8 = new AnyOfDiscriminatedRuntype(undefined, [
    direct_hoist_4,
    direct_hoist_7
], "kind", {
    "a": direct_hoist_4,
    "b": direct_hoist_7
}, {
    "a": direct_hoist_4,
    "b": direct_hoist_7
});
const direct_hoist_9 = new ConstRuntype(undefined, "BB");
const direct_hoist_10 = new ObjectRuntype(undefined, {
    "kind": direct_hoist_2,
    "v": direct_hoist_9
}, []);
const direct_hoist_11 = new AnyOfDiscriminatedRuntype(undefined, [
    direct_hoist_10,
    direct_hoist_7
], "kind", {
    "a": direct_hoist_10,
    "b": direct_hoist_7
}, {
    "a": direct_hoist_10,
    "b": direct_hoist_7
});
const namedRuntypes = {
    "U1": direct_hoist_8,
    "U2": direct_hoist_11
};
const buildParsersInput = {
    "U1": direct_hoist_0,
    "U2": direct_hoist_1
};

export const parsers = {};
for (const k of Object.keys(buildParsersInput)) parsers[k] = buildParserFromRuntype(buildParsersInput[k], k, false);
export { namedRuntypes };

import {
  TypeofRuntype, AnyRuntype, NullishRuntype, NeverRuntype, ConstRuntype, RegexRuntype, DateRuntype,
  BigIntRuntype, StringWithFormatRuntype, NumberWithFormatRuntype, AnyOfConstsRuntype, TupleRuntype,
  AllOfRuntype, AnyOfRuntype, ArrayRuntype, AnyOfDiscriminatedRuntype, ObjectRuntype,
  OptionalFieldRuntype, BaseRefRuntype, registerStringFormatter, registerNumberFormatter,
  buildParserFromRuntype, generateHashFromString, TypedArrayRuntype, MapRuntype, SetRuntype,
} from "@beff/client/codegen-v2";
class RefRuntype extends BaseRefRuntype { getNamedRuntypes() { return namedRuntypes; } }
const direct_hoist_0 = new RefRuntype(undefined, "Order");
const direct_hoist_1 = new TypeofRuntype(undefined, "number");
const direct_hoist_2 = new ObjectRuntype(undefined, {
    "qty": direct_hoist_1,
    "sku": direct_hoist_1
}, []);
const direct_hoist_3 = new RefRuntype(undefined, "Item");
const direct_hoist_4 = new ArrayRuntype(undefined, direct_hoist_3);
const direct_hoist_5 = new ObjectRuntype(undefined, {
    "lines": direct_hoist_4
}, []);
const namedRuntypes = {
    "Item": direct_hoist_2,
    "Order": direct_hoist_5
};
const buildParsersInput = {
    "Order": direct_hoist_0
};

export const parsers = {};
for (const k of Object.keys(buildParsersInput)) parsers[k] = buildParserFromRuntype(buildParsersInput[k], k, false);
export { namedRuntypes };

// usage: node --no-warnings --import ./register.mjs repro.mjs <finding>     (run ./repro.sh to compile first)
import { SchemaPrintingContext, createNamedType } from "@beff/client/codegen-v2";
import * as bmod from "/tmp/hunt-C16/packages/beff-client/src/b.ts";
const OPTS = { refPathTemplate: "#/components/schemas/{name}", definitionContainerKey: null };
const J = JSON.stringify;
const load = async (n) => (await import(`./gen/${n}.mjs`)).parsers;
const print = (parsers, order, opts = OPTS) => {
  const ctx = new SchemaPrintingContext(opts);
  const returned = order.map((n) => { try { return [n, parsers[n].schemaWithContext(ctx)]; } catch (e) { return [n, "THREW " + e.message]; } });
  return { returned, defs: ctx.exportDefinitions() };
};
const which = process.argv[2];
if (which === "f1") {
  for (const [m, a, b, d] of [["f1_zoom", "Zoom1", "Zoom2", "factor"], ["f1_strings", "U1", "U2", "v"]]) {
    const P = await load(m);
    for (const order of [[a, b], [b, a], [b]]) {
      const r = print(P, order);
      const syn = Object.keys(r.defs).filter((k) => k.startsWith("Discriminated"));
      console.log(m, order.join(","), "->", syn.map((k) => `${k}.${d}=${J(r.defs[k].properties[d])}`).filter((s) => !s.includes("undefined")).join(" "));
    }
  }
} else if (which === "f2") {
  const P = await load("f2_units");
  for (const order of [["Metric", "Imperial"], ["Imperial", "Metric"], ["Imperial"]]) {
    const r = print(P, order);
    const syn = Object.keys(r.defs).filter((k) => k.startsWith("DiscriminatedUnitLen"));
    console.log(order.join(","), "->", syn.map((k) => `${k}.value=${J(r.defs[k].properties.value)}`).join(" "), "| defs:", Object.keys(r.defs).join(","));
  }
} else if (which === "f3") {
  const P = await load("f3_throw");
  for (const order of [["Post", "Author", "Comment"], ["Author"], ["Comment"]]) {
    const r = print(P, order);
    console.log(order.join(","), "->", J(r.returned), "\n   defs:", J(r.defs));
  }
} else if (which === "f4") {
  const P = await load("f4_protonames");
  const r = print(P, ["Holder", "constructor"]);
  console.log(J(r.returned), "\n   defs:", J(r.defs));
} else if (which === "f5") {
  const P = await load("f5_dollar");
  const r = print(P, ["Invoice"]);
  console.log(J(r.returned), "\n   defs:", J(r.defs));
} else if (which === "f6") {
  const A = await load("f6_a"), B = await load("f6_b");
  const all = { ...A, ...B };
  for (const order of [["Cart", "Order"], ["Order", "Cart"]]) console.log(order.join(","), "-> Item =", J(print(all, order).defs.Item));
  const b = bmod.b ?? bmod;
  all.RtItem = createNamedType("Item", b.Object({ code: b.String() }));
  for (const order of [["RtItem", "Cart"], ["Cart", "RtItem"]]) console.log(order.join(","), "-> Item =", J(print(all, order).defs.Item));
}

// Compiles the TypeScript program named by HUNT_SRC and prints either the generated module body
// (HUNT_MODE=cgen, default), the printed types (types) or the diagnostics (fail).
use beff_core::test_tools::{failure, print_cgen, print_types};

#[test]
fn hunt_c16() {
    let src = match std::env::var("HUNT_SRC") {
        Ok(s) => s,
        Err(_) => return,
    };
    let from = std::fs::read_to_string(&src).expect("read HUNT_SRC");
    let mode = std::env::var("HUNT_MODE").unwrap_or_else(|_| "cgen".into());
    let out = match mode.as_str() {
        "types" => print_types(&from),
        "fail" => failure(&from),
        _ => print_cgen(&from),
    };
    let dst = std::env::var("HUNT_OUT").expect("HUNT_OUT");
    std::fs::write(dst, out).unwrap();
}

// Loader hooks: ./x.js -> ./x.ts inside packages/beff-client/src, "zod" stubbed, "@beff/client/*" mapped
// to the TypeScript sources, and named imports turned into namespace destructuring so that
// type-only names imported without the `type` keyword do not break ESM linking.
import { readFile } from "node:fs/promises";
import { fileURLToPath, pathToFileURL } from "node:url";
import { stripTypeScriptTypes } from "node:module";
const SRC = "/tmp/hunt-C16/packages/beff-client/src/";
export async function resolve(specifier, context, next) {
  if (specifier === "zod") return { url: "stub:zod", shortCircuit: true };
  if (specifier === "@beff/client/codegen-v2") return { url: pathToFileURL(SRC + "codegen-v2.ts").href, shortCircuit: true };
  if (specifier === "@beff/client") return { url: pathToFileURL(SRC + "index.ts").href, shortCircuit: true };
  if (context.parentURL && context.parentURL.startsWith("file://" + SRC) && specifier.startsWith("./") && specifier.endsWith(".js")) {
    return { url: new URL(specifier.replace(/\.js$/, ".ts"), context.parentURL).href, shortCircuit: true };
  }
  return next(specifier, context);
}
let n = 0;
export async function load(url, context, next) {
  if (url === "stub:zod") {
    return { format: "module", source: "export const z = { custom: () => { throw new Error('zod stub'); } };", shortCircuit: true };
  }
  if (url.startsWith("file://" + SRC) && url.endsWith(".ts")) {
    let src = await readFile(fileURLToPath(url), "utf8");
    src = stripTypeScriptTypes(src, { mode: "strip" });
    src = src.replace(/^import\s*\{([^}]*)\}\s*from\s*("[^"]+");?/gm, (m, names, from) => {
      const id = `__ns${n++}`;
      const list = names.split(",").map((s) => s.trim()).filter((s) => s.length > 0 && !s.startsWith("type "));
      const pat = list.map((s) => s.replace(/\s+as\s+/, ": ")).join(", ");
      return `import * as ${id} from ${from}; const { ${pat} } = ${id};`.replace(/\n/g, " ") + "\n".repeat((m.match(/\n/g) || []).length);
    });
    return { format: "module", source: src, shortCircuit: true };
  }
  return next(url, context);
}

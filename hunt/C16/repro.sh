#!/bin/sh
# Builds the integration test (packages/beff-core/tests/hunt_c16.rs, copy kept in _hunt/), compiles every
# program of _hunt/progs with beff-core and runs the reproduction of each finding.
set -e
cd /tmp/hunt-C16/_hunt
cp hunt_c16.rs ../packages/beff-core/tests/hunt_c16.rs
(cd .. && CARGO_NET_OFFLINE=true CARGO_TARGET_DIR=/tmp/hunt-C16/target cargo test -q -p beff-core --test hunt_c16 --no-run 2>/dev/null)
mkdir -p gen
for p in progs/*.ts; do ./compile.sh "$p" "gen/$(basename "$p" .ts).mjs"; done
NODE="/root/.nvm/versions/node/v22.22.2/bin/node --no-warnings --import ./register.mjs"
for f in f1 f2 f3 f4 f5 f6; do echo "=== $f"; $NODE repro.mjs $f; done
echo "=== control: rich recursive program, all orders and repetitions"; $NODE check.mjs gen/rich.mjs

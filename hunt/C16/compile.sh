#!/bin/sh
# usage: compile.sh prog.ts out.mjs   -- compiles a beff program with beff-core and wraps the generated
# body into an ES module that exports the built parsers (same prelude as the real generated parser.js)
set -e
BIN=$(ls -t /tmp/hunt-C16/target/debug/deps/hunt_c16-* | grep -v '\.d$' | head -1)
HUNT_SRC="$1" HUNT_OUT="$2.body" HUNT_MODE=${HUNT_MODE:-cgen} "$BIN" --nocapture >/dev/null
if [ "${HUNT_MODE:-cgen}" != "cgen" ]; then cat "$2.body"; exit 0; fi
{
cat <<'PRE'
import {
  TypeofRuntype, AnyRuntype, NullishRuntype, NeverRuntype, ConstRuntype, RegexRuntype, DateRuntype,
  BigIntRuntype, StringWithFormatRuntype, NumberWithFormatRuntype, AnyOfConstsRuntype, TupleRuntype,
  AllOfRuntype, AnyOfRuntype, ArrayRuntype, AnyOfDiscriminatedRuntype, ObjectRuntype,
  OptionalFieldRuntype, BaseRefRuntype, registerStringFormatter, registerNumberFormatter,
  buildParserFromRuntype, generateHashFromString, TypedArrayRuntype, MapRuntype, SetRuntype,
} from "@beff/client/codegen-v2";
class RefRuntype extends BaseRefRuntype { getNamedRuntypes() { return namedRuntypes; } }
PRE
cat "$2.body"
cat <<'POST'

export const parsers = {};
for (const k of Object.keys(buildParsersInput)) parsers[k] = buildParserFromRuntype(buildParsersInput[k], k, false);
export { namedRuntypes };
POST
} > "$2"
rm -f "$2.body"

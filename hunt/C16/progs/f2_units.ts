/** a length in centimetres */
type Cm = { /** centimetres */ n: number };
/** a length in inches */
type Inch = { /** inches */ n: number };
type Metric = { unit: "len"; value: Cm } | { unit: "none" };
type Imperial = { unit: "len"; value: Inch } | { unit: "none" };
parse.buildParsers<{ Metric: Metric, Imperial: Imperial }>();

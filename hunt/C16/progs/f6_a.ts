type Item = { id: string };
type Cart = { items: Item[] };
parse.buildParsers<{ Cart: Cart }>();

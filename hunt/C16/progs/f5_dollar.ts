type Price$$ = { cents: number };
type Price$ = { label: string };
type Invoice = { total: Price$$; note: Price$ };
parse.buildParsers<{ Invoice: Invoice }>();

type Tree<T> = { value: T; children: Tree<T>[]; parent?: Tree<T> };
type Cat = { kind: "cat"; friends: Pet[]; owner: Person | null };
type Dog = { kind: "dog" | "puppy"; pack?: Dog[]; owner: Person | null };
type Fish = Base & { kind: "fish"; tank: Tree<Pet> };
type Base = { id: string; tags: Record<string, Pet | undefined> };
type Pet = Cat | Dog | Fish;
type Person = { name: string; pets: Pet[]; best?: Cat | Dog; spouse?: Person; t: [Pet, ...Person[]] };
enum Color { Red = "red", Blue = "blue" }
type Painted = { color: Color; only: Color.Red; who: Person } | { color: "none"; pet: Pet };
parse.buildParsers<{ Pet: Pet, Person: Person, Painted: Painted, Cat: Cat, StrTree: Tree<string>, PetTree: Tree<Pet>, Inline: { a: Pet; b: Partial<Person>; c: Omit<Cat, "friends"> } }>();

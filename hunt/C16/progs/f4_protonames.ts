type constructor = { x: string };
type __proto__ = { y: number; next?: __proto__ };
type valueOf = "a" | "b";
type Holder = { c: constructor; p: __proto__; v: valueOf };
parse.buildParsers<{ Holder: Holder, constructor: constructor }>();

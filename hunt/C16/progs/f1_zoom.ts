type Zoom1 = { kind: "zoom"; factor: 0.5 | 2 } | { kind: "reset" };
type Zoom2 = { kind: "zoom"; factor: 0.25 | 2 } | { kind: "reset" };
parse.buildParsers<{ Zoom1: Zoom1, Zoom2: Zoom2 }>();

type U1 = { kind: "a"; v: "Aa" } | { kind: "b"; n: number };
type U2 = { kind: "a"; v: "BB" } | { kind: "b"; n: number };
parse.buildParsers<{ U1: U1, U2: U2 }>();

type Item = { sku: number; qty: number };
type Order = { lines: Item[] };
parse.buildParsers<{ Order: Order }>();

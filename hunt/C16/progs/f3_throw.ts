type Post = { title: string; author: Author; publishedAt: Date };
type Author = { name: string; posts: Post[] };
type Comment = { text: string; by: Author };
parse.buildParsers<{ Post: Post, Author: Author, Comment: Comment }>();

// usage: node --import ./register.mjs check.mjs gen/x.mjs [maxPermLen]
// Prints every parser of the module into shared contexts in all orders (with one repetition) and
// compares: (1) each exported definition with the one a fresh context gives when the owning type is
// printed alone, (2) every returned schema with the fresh one, (3) $ref resolution in the final export.
import { SchemaPrintingContext } from "@beff/client/codegen-v2";
const mod = await import(new URL(process.argv[2], "file://" + process.cwd() + "/").href);
const parsers = mod.parsers;
const names = Object.keys(parsers);
const opts = { refPathTemplate: "#/components/schemas/{name}", definitionContainerKey: null };
// HUNT_OVR="Cat=StrTree,Person=Inline": namedTypeSchemaOverrides taken from the module's own parsers
if (process.env.HUNT_OVR) opts.namedTypeSchemaOverrides = Object.fromEntries(process.env.HUNT_OVR.split(",").map((kv) => { const [k, v] = kv.split("="); return [k, parsers[v]]; }));
const J = (x) => JSON.stringify(x);
function refsOf(x, acc = []) {
  if (Array.isArray(x)) x.forEach((y) => refsOf(y, acc));
  else if (x && typeof x === "object") for (const k of Object.keys(x)) { if (k === "$ref" && typeof x[k] === "string") acc.push(x[k]); else if (k === "discriminator" && x[k]?.mapping) { acc.push(...Object.values(x[k].mapping)); } else refsOf(x[k], acc); }
  return acc;
}
function run(order) {
  const ctx = new SchemaPrintingContext(opts);
  const returned = [];
  for (const n of order) {
    try { returned.push([n, parsers[n].schemaWithContext(ctx)]); } catch (e) { returned.push([n, { __threw: String(e.message) }]); }
  }
  return { returned, defs: ctx.exportDefinitions() };
}
const fresh = {};
for (const n of names) fresh[n] = run([n]);
function* perms(a) { if (a.length <= 1) { yield a; return; } for (let i = 0; i < a.length; i++) for (const p of perms([...a.slice(0, i), ...a.slice(i + 1)])) yield [a[i], ...p]; }
let problems = new Set();
const prefix = "#/components/schemas/";
for (const p of perms(names)) {
  for (const order of [p, [...p, ...p]]) {
    const r = run(order);
    for (const [n, s] of r.returned) if (J(s) !== J(fresh[n].returned[0][1])) problems.add(`RETURNED ${n} in order ${order.join(",")}: ${J(s)} vs fresh ${J(fresh[n].returned[0][1])}`);
    for (const [d, body] of Object.entries(r.defs)) {
      for (const n of names) if (d in fresh[n].defs && J(fresh[n].defs[d]) !== J(body)) problems.add(`DEF ${d} in order ${order.join(",")}: ${J(body)} vs fresh(${n}) ${J(fresh[n].defs[d])}`);
    }
    for (const ref of refsOf([r.returned.map((x) => x[1]), r.defs])) {
      const nm = ref.startsWith(prefix) ? ref.slice(prefix.length) : null;
      if (nm == null || !Object.prototype.hasOwnProperty.call(r.defs, nm)) problems.add(`DANGLING ${ref} in order ${order.join(",")}`);
    }
  }
}
// one line per (kind, name): the first order that shows it
const firstOf = new Map();
for (const p of problems) { const k = p.split(" in order ")[0]; if (!firstOf.has(k)) firstOf.set(k, p); }
const arr = [...firstOf.values()];
console.log(arr.length === 0 ? "no problems" : arr.join("\n"));
console.log("distinct problems:", arr.length, "occurrences:", problems.size);

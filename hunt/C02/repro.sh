#!/bin/sh
# Reproduces every finding. Run from anywhere: sh /tmp/hunt-C02/_hunt/repro.sh [finding-number]
# step 1 compiles _hunt/programs/*.ts with beff-core (test packages/beff-core/tests/hunt_c02.rs, copy kept in _hunt/)
# step 2 loads the emitted modules on top of packages/beff-client/src and compares schema / validator
set -e
cd /tmp/hunt-C02
cp _hunt/hunt_c02.rs packages/beff-core/tests/hunt_c02.rs
CARGO_NET_OFFLINE=true CARGO_TARGET_DIR=/tmp/hunt-C02/target cargo test -p beff-core --test hunt_c02 2>&1 | tail -2
cd _hunt
N="/root/.nvm/versions/node/v22.22.2/bin/node --no-warnings --experimental-strip-types --import ./register.mjs"
want() { [ -z "$SEL" ] || [ "$SEL" = "$1" ]; }
SEL="$1"
if want 1; then echo "##### 1 template literal pattern has no dotAll"; $N check.mjs tpl_newline '"a\nb"' T; fi
if want 2; then echo "##### 2 named properties next to a non-string index"; $N check.mjs index_named '{"id":"x","data-a":1}'; $N check.mjs mapped_mixed '{"id":"x"}'; fi
if want 3; then echo "##### 3 optional property named like an Object.prototype member"; $N check.mjs proto_opt '{"a":1}'; fi
if want 4; then echo "##### 4 synthetic variant definitions shared through hash collisions"; $N check_shared.mjs hash_collide A B '{"_tag":"a","payload":"anything"}'; $N check_shared.mjs hash_collide C D '{"_tag":"a","payload":"a"}'; fi
if want 5; then echo "##### 5 function member prints type: function"; $N check.mjs fn_type '{"name":"x"}'; fi
if want 6; then echo "##### 6 numeric index keys"; $N check.mjs rec_num '{"1":"x"}'; fi
if want 7; then echo "##### extra: \$\$ in a type name"; $N check.mjs dollar_name '{"v":{"x":"s"}}'; fi
if want 8; then echo "##### extra: type alias named like an Object.prototype member"; $N check.mjs proto_typename '{"w":{"b":"notnum"}}' U; fi
if want 9; then echo "##### extra: __proto__ as discriminator tag / property key"; $N check.mjs proto_tag '{"t":"__proto__","a":"s"}'; $N check.mjs proto_key '{"a":1}'; fi
rm -rf tmp

// Minimal Draft 2020-12 evaluator for the keywords beff emits, plus a well-formedness check.
// `pattern` is compiled the way the spec says (ECMA-262, unicode, no other flags).
const KNOWN = new Set(["type","enum","const","properties","required","additionalProperties","propertyNames","items","prefixItems","minItems","anyOf","oneOf","allOf","not","$ref","pattern","format","description","discriminator","$defs","definitions"]);
function typeOf(v){ if(v===null) return "null"; if(Array.isArray(v)) return "array"; if (typeof v === "number") return "number"; return typeof v; }
function deepEq(a,b){ if(a===b) return true; if(typeOf(a)!==typeOf(b)) return false; if(Array.isArray(a)) return a.length===b.length && a.every((x,i)=>deepEq(x,b[i])); if(a&&typeof a==="object"){const ka=Object.keys(a),kb=Object.keys(b); return ka.length===kb.length && ka.every(k=>Object.prototype.hasOwnProperty.call(b,k)&&deepEq(a[k],b[k]));} return false; }
export function resolveRef(ref, root){
  if(!ref.startsWith("#")) throw new Error("external ref "+ref);
  let cur = root; const ptr = decodeURIComponent(ref.slice(1));
  if (ptr==="") return cur;
  for(const raw of ptr.split("/").slice(1)){ const k = raw.replace(/~1/g,"/").replace(/~0/g,"~"); if(cur==null||typeof cur!=="object"||!Object.prototype.hasOwnProperty.call(cur,k)) return undefined; cur=cur[k]; }
  return cur;
}
export function wellFormed(s, root=s, path="#", out=[]){
  if (typeof s === "boolean") return out;
  if (s===null || typeof s!=="object" || Array.isArray(s)) { out.push(path+": schema is not an object/boolean"); return out; }
  for (const k of Object.keys(s)) if(!KNOWN.has(k)) out.push(`${path}: unknown keyword ${k}`);
  if ("type" in s && !["string","number","integer","boolean","null","array","object"].includes(s.type) && !Array.isArray(s.type)) out.push(path+": bad type "+JSON.stringify(s.type));
  if ("enum" in s && !Array.isArray(s.enum)) out.push(path+": enum not array");
  if ("required" in s && !(Array.isArray(s.required)&&s.required.every(x=>typeof x==="string"))) out.push(path+": bad required");
  if ("required" in s && new Set(s.required).size!==s.required.length) out.push(path+": required has duplicates");
  if ("minItems" in s && !(Number.isInteger(s.minItems)&&s.minItems>=0)) out.push(path+": bad minItems");
  if ("pattern" in s) { try { new RegExp(s.pattern,"u"); } catch(e){ out.push(path+": pattern is not an ECMA-262 (unicode) regex: "+e.message); } }
  for (const k of ["anyOf","oneOf","allOf","prefixItems"]) if (k in s) { if(!Array.isArray(s[k])||s[k].length===0) out.push(`${path}: ${k} must be a non-empty array`); else s[k].forEach((x,i)=>wellFormed(x,root,`${path}/${k}/${i}`,out)); }
  for (const k of ["not","items","additionalProperties","propertyNames"]) if (k in s) wellFormed(s[k],root,`${path}/${k}`,out);
  for (const k of ["properties","$defs","definitions"]) if (k in s) { if(s[k]===null||typeof s[k]!=="object"||Array.isArray(s[k])) out.push(`${path}: ${k} not an object`); else for(const p of Object.keys(s[k])) wellFormed(s[k][p],root,`${path}/${k}/${p}`,out); }
  if ("$ref" in s) { if (typeof s.$ref!=="string") out.push(path+": $ref not a string"); else { let t; try{ t=resolveRef(s.$ref,root);}catch(e){ out.push(path+": "+e.message);} if(t===undefined) out.push(`${path}: $ref ${s.$ref} does not resolve`); } }
  return out;
}
export function valid(s, v, root=s){
  if (s===true) return true; if (s===false) return false;
  if ("$ref" in s) { const t=resolveRef(s.$ref,root); if(t===undefined) throw new Error("unresolved $ref "+s.$ref); if(!valid(t,v,root)) return false; }
  const t=typeOf(v);
  if ("type" in s) { const ts=Array.isArray(s.type)?s.type:[s.type]; if(!ts.some(x=>x===t||(x==="integer"&&t==="number"&&Number.isInteger(v)))) return false; }
  if ("enum" in s && !s.enum.some(x=>deepEq(x,v))) return false;
  if ("const" in s && !deepEq(s.const,v)) return false;
  if ("pattern" in s && t==="string" && !new RegExp(s.pattern,"u").test(v)) return false;
  if ("allOf" in s && !s.allOf.every(x=>valid(x,v,root))) return false;
  if ("anyOf" in s && !s.anyOf.some(x=>valid(x,v,root))) return false;
  if ("oneOf" in s && s.oneOf.filter(x=>valid(x,v,root)).length!==1) return false;
  if ("not" in s && valid(s.not,v,root)) return false;
  if (t==="array") {
    if ("minItems" in s && v.length<s.minItems) return false;
    const pre = s.prefixItems??[];
    for(let i=0;i<v.length;i++){ if(i<pre.length){ if(!valid(pre[i],v[i],root)) return false; } else if ("items" in s && !valid(s.items,v[i],root)) return false; }
  }
  if (t==="object") {
    const has=(k)=>Object.prototype.hasOwnProperty.call(v,k);
    if ("required" in s && !s.required.every(has)) return false;
    const props = s.properties??{};
    for (const k of Object.keys(v)) {
      if ("propertyNames" in s && !valid(s.propertyNames,k,root)) return false;
      if (Object.prototype.hasOwnProperty.call(props,k)) { if(!valid(props[k],v[k],root)) return false; }
      else if ("additionalProperties" in s && !valid(s.additionalProperties,v[k],root)) return false;
    }
  }
  return true;
}

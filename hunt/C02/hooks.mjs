// loader hooks: map ./x.js -> ./x.ts inside packages/beff-client/src, stub zod
import { existsSync } from "node:fs";
import { fileURLToPath } from "node:url";
export async function resolve(specifier, context, nextResolve) {
  if (specifier === "zod") {
    return { url: "data:text/javascript,export const z = { custom: () => ({}) };", shortCircuit: true };
  }
  if (specifier.startsWith(".") && specifier.endsWith(".js") && context.parentURL?.includes("/beff-client/src/")) {
    const u = new URL(specifier.replace(/\.js$/, ".ts"), context.parentURL);
    if (existsSync(fileURLToPath(u))) return { url: u.href, shortCircuit: true };
  }
  return nextResolve(specifier, context);
}
import { readFileSync } from "node:fs";
import { stripTypeScriptTypes } from "node:module";
export async function load(url, context, nextLoad) {
  if (url.startsWith("file:") && url.includes("/beff-client/src/") && url.endsWith(".ts")) {
    let src = readFileSync(fileURLToPath(url), "utf8");
    // imports that only bring types (written without the `type` keyword) are dropped
    src = src.replace(/^import\s*\{[^}]*\}\s*from\s*"\.\/(json-schema|types)\.js";\s*$/gm, "");
    src = src.replace(/^import\s+type[^;]*;\s*$/gm, "");
    return { format: "module", source: stripTypeScriptTypes(src), shortCircuit: true };
  }
  return nextLoad(url, context);
}

// Hunt driver: compiles every _hunt/programs/*.ts with beff-core's public test API and writes the
// generated JS module to _hunt/gen/<name>.js (or <name>.err when beff refuses the program).
#[cfg(test)]
mod tests {
    use beff_core::test_tools::print_cgen;
    use std::fs;
    use std::path::PathBuf;

    #[test]
    fn hunt_emit_all() {
        let root = PathBuf::from(env!("CARGO_MANIFEST_DIR")).join("../../_hunt");
        let progs = root.join("programs");
        let out_dir = root.join("gen");
        fs::create_dir_all(&out_dir).unwrap();
        let only = std::env::var("HUNT_ONLY").ok();
        for e in fs::read_dir(&progs).unwrap() {
            let p = e.unwrap().path();
            if p.extension().and_then(|s| s.to_str()) != Some("ts") {
                continue;
            }
            let name = p.file_stem().unwrap().to_str().unwrap().to_string();
            if let Some(o) = &only {
                if !name.contains(o.as_str()) {
                    continue;
                }
            }
            let src = fs::read_to_string(&p).unwrap();
            let r = std::panic::catch_unwind(|| print_cgen(&src));
            let _ = fs::remove_file(out_dir.join(format!("{}.js", name)));
            let _ = fs::remove_file(out_dir.join(format!("{}.err", name)));
            match r {
                Ok(code) => fs::write(out_dir.join(format!("{}.js", name)), code).unwrap(),
                Err(e) => {
                    let msg = if let Some(s) = e.downcast_ref::<String>() {
                        s.clone()
                    } else if let Some(s) = e.downcast_ref::<&str>() {
                        s.to_string()
                    } else {
                        "panic".to_string()
                    };
                    fs::write(out_dir.join(format!("{}.err", name)), msg).unwrap()
                }
            }
        }
    }
}

type constructor = { a: string; next?: constructor };
type valueOf = { b: number };
parse.buildParsers<{ T: { v: constructor }, U: { w: valueOf } }>();

type A$$B = { x: string; next?: A$$B };
parse.buildParsers<{ T: { v: A$$B } }>();

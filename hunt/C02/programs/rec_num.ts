parse.buildParsers<{ R: Record<number, string>, I: { [k: number]: string }, L: Record<1 | 2, string> }>();

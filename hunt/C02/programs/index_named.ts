export type Idx = { id: string; [k: `data-${string}`]: number };
parse.buildParsers<{ T: Idx }>();

type G<T> = { _tag: "a"; payload: T } | { _tag: "b" };
parse.buildParsers<{ A: G<string>, B: G<"string">, C: G<97 | 98>, D: G<"a" | "b"> }>();

export type ProtoOpt = { toString?: string; a: number };
parse.buildParsers<{ T: ProtoOpt }>();

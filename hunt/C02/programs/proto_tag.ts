type U = { t: "__proto__", a: string } | { t: "b", b: number };
parse.buildParsers<{ T: U }>();

type WithCb = { name: string; cb: () => void };
parse.buildParsers<{ T: WithCb }>();

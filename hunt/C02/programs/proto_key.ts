type O = { "__proto__": string, a: number };
parse.buildParsers<{ T: O }>();

export type Tpl = `a${string}`;
parse.buildParsers<{ T: Tpl, O: { v: `id:${string}` } }>();

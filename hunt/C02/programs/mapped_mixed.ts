type Attrs = Record<"id" | `data-${string}`, string>;
parse.buildParsers<{ T: Attrs }>();

// usage: node ... check.mjs <generated-name> '<json doc>' [parserKey...]
// prints flat + contextual schema, well-formedness, schema validity and validator verdict for the doc
import { loadGenerated, client as c } from "./load.mjs";
import { valid, wellFormed } from "./jsonschema.mjs";
const [name, docText, ...keys] = process.argv.slice(2);
const mod = await loadGenerated(name);
const parsers = mod.default;
const doc = docText === undefined ? undefined : JSON.parse(docText);
for (const k of keys.length ? keys : Object.keys(parsers)) {
  const p = parsers[k];
  console.log(`== ${k}`);
  try {
    const s = p.schema();
    console.log("flat      :", JSON.stringify(s));
    console.log("  wellFormed:", JSON.stringify(wellFormed(s)));
    if (doc !== undefined) console.log("  schemaValid:", valid(s, doc));
  } catch (e) { console.log("flat THROWS:", e.message); }
  try {
    const pc = new c.SchemaPrintingContext({ refPathTemplate: "#/$defs/{name}", definitionContainerKey: "$defs" });
    const s = p.schemaWithContext(pc);
    const root = { ...s, ...pc.exportDefinitions() };
    console.log("contextual:", JSON.stringify(root));
    console.log("  wellFormed:", JSON.stringify(wellFormed(root)));
    if (doc !== undefined) { try { console.log("  schemaValid:", valid(root, doc)); } catch (e) { console.log("  schemaValid THROWS:", e.message); } }
  } catch (e) { console.log("contextual THROWS:", e.message); }
  if (doc !== undefined) { try { console.log("validate  :", p.validate(doc)); } catch (e) { console.log("validate THROWS:", e.message); } }
}

// usage: check_shared.mjs <gen> <keyA> <keyB> '<doc>' : prints A then B into ONE SchemaPrintingContext, evaluates doc against B
import { loadGenerated, client as c } from "./load.mjs";
import { valid, wellFormed } from "./jsonschema.mjs";
const [name, ka, kb, docText] = process.argv.slice(2);
const parsers = (await loadGenerated(name)).default;
const doc = JSON.parse(docText);
const pc = new c.SchemaPrintingContext({ refPathTemplate: "#/$defs/{name}", definitionContainerKey: "$defs" });
const sa = parsers[ka].schemaWithContext(pc);
const sb = parsers[kb].schemaWithContext(pc);
const defs = pc.exportDefinitions();
console.log(ka, JSON.stringify(sa));
console.log(kb, JSON.stringify(sb));
console.log("defs", JSON.stringify(defs));
const rootB = { ...sb, ...defs };
console.log("wellFormed:", JSON.stringify(wellFormed(rootB)));
console.log(`doc ${docText}: valid against ${kb}'s schema:`, valid(rootB, doc), `| ${kb}.validate:`, parsers[kb].validate(doc));

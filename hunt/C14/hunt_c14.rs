// C14 hunt harness: drive the watch-mode session API with an in-memory host and compare every
// rebuild with a brand-new session (fresh thread) on the same file contents.
use beff_wasm::verif;
use std::cell::RefCell;
use std::collections::BTreeMap;
use std::rc::Rc;

type Files = BTreeMap<String, String>;

struct MemHost {
    files: Rc<RefCell<Files>>,
}

fn normalize(p: &str) -> String {
    let mut out: Vec<&str> = vec![];
    for part in p.split('/') {
        match part {
            "" | "." => {}
            ".." => {
                out.pop();
            }
            x => out.push(x),
        }
    }
    format!("/{}", out.join("/"))
}

// TypeScript-like resolution of relative specifiers: x.ts, x.tsx, x.d.ts, x/index.ts
fn resolve(files: &Files, current: &str, spec: &str) -> Option<String> {
    let base = if spec.starts_with("./") || spec.starts_with("../") {
        let dir = match current.rfind('/') {
            Some(i) => &current[..i],
            None => "",
        };
        normalize(&format!("{}/{}", dir, spec))
    } else {
        format!("/node_modules/{}", spec)
    };
    let base = base.strip_suffix(".js").unwrap_or(&base).to_string();
    for cand in [
        format!("{}.ts", base),
        format!("{}.tsx", base),
        format!("{}.d.ts", base),
        format!("{}/index.ts", base),
        format!("{}/index.d.ts", base),
    ] {
        if files.contains_key(&cand) {
            return Some(cand);
        }
    }
    None
}

impl verif::Host for MemHost {
    fn resolve_import(&mut self, current_file: &str, specifier: &str) -> Option<String> {
        resolve(&self.files.borrow(), current_file, specifier)
    }
    fn read_file_content(&mut self, file_name: &str) -> Option<String> {
        self.files.borrow().get(file_name).cloned()
    }
}

const SETTINGS: &str = r#"{"string_formats":[],"number_formats":[]}"#;
const ENTRY: &str = "/p/a.ts";

#[derive(Debug, PartialEq, Eq, Clone)]
struct Outcome {
    code: Result<String, String>,
    emitted: Vec<String>,
    diags: String,
}

fn build_here() -> Outcome {
    let code = verif::bundle_to_string(ENTRY, SETTINGS);
    let emitted = verif::take_emitted_diagnostics();
    let diags = verif::bundle_to_diagnostics(ENTRY, SETTINGS);
    Outcome {
        code,
        emitted,
        diags,
    }
}

fn fresh(files: &Files) -> Outcome {
    let files = files.clone();
    std::thread::spawn(move || {
        verif::set_host(Box::new(MemHost {
            files: Rc::new(RefCell::new(files)),
        }));
        build_here()
    })
    .join()
    .expect("fresh session panicked")
}

enum Op {
    Write(&'static str, &'static str),
    Build,
}
use Op::*;

fn short(o: &Outcome) -> String {
    let code = match &o.code {
        Ok(c) => format!("OK code ({} bytes):\n{}", c.len(), c),
        Err(e) => format!("ERR {}", e),
    };
    format!("{}\n  emitted={:?}\n  diags={}", code, o.emitted, o.diags)
}

// returns the number of rebuilds that differ from a fresh session
fn run(name: &str, initial: &[(&str, &str)], ops: Vec<Op>) -> usize {
    println!("\n================ scenario {} ================", name);
    let initial: Files = initial
        .iter()
        .map(|(k, v)| (k.to_string(), v.to_string()))
        .collect();
    let name = name.to_string();
    std::thread::spawn(move || {
        let files = Rc::new(RefCell::new(initial));
        verif::set_host(Box::new(MemHost {
            files: files.clone(),
        }));
        let mut bad = 0;
        let mut step = 0;
        for op in ops {
            step += 1;
            match op {
                Write(f, c) => {
                    println!("[{}] step {}: write {} <- {:?}", name, step, f, c);
                    files.borrow_mut().insert(f.to_string(), c.to_string());
                    verif::update_file_content(f, c);
                }
                Build => {
                    let here = build_here();
                    let snapshot = files.borrow().clone();
                    let f = fresh(&snapshot);
                    if here == f {
                        println!(
                            "[{}] step {}: rebuild == fresh ({})",
                            name,
                            step,
                            if here.code.is_ok() { "ok" } else { "errors" }
                        );
                    } else {
                        bad += 1;
                        println!("[{}] step {}: REBUILD DIFFERS FROM FRESH", name, step);
                        println!("--- session:\n{}", short(&here));
                        println!("--- fresh:\n{}", short(&f));
                    }
                }
            }
        }
        bad
    })
    .join()
    .expect("session panicked")
}

const A_IMPORT_C: &str =
    "import parse from './parser';\nimport { C } from './c';\nexport default parse.buildParsers<{ C: C }>();\n";

#[test]
fn sanity_equal() {
    let n = run(
        "sanity",
        &[
            ("/p/a.ts", A_IMPORT_C),
            ("/p/c.ts", "export type C = { x: string };\n"),
        ],
        vec![
            Build,
            Write("/p/c.ts", "export type C = { x: number };\n"),
            Build,
            Write("/p/c.ts", "export type C = { x: number \n"),
            Build,
            Write("/p/c.ts", "export type C = { x: boolean };\n"),
            Build,
        ],
    );
    assert_eq!(n, 0);
}

const PARSER_DTS: &str = "declare const p: { buildParsers: <T>() => any };\nexport default p;\n";
const C_STRING: &str = "export type C = { x: string };\n";
const C_NUMBER: &str = "export type C = { x: number };\n";

// H1: a cached importer keeps a resolution that a newly created file now shadows
#[test]
fn shadow_index_by_file() {
    let n = run(
        "shadow_index_by_file",
        &[
            ("/p/a.ts", A_IMPORT_C),
            ("/p/parser.d.ts", PARSER_DTS),
            ("/p/c/index.ts", C_STRING),
        ],
        vec![
            Build,
            Write("/p/c.ts", C_NUMBER),
            Build,
            // "touching" the importer heals the session: same contents, different result
            Write("/p/a.ts", A_IMPORT_C),
            Build,
        ],
    );
    println!("mismatches: {}", n);
}

// ---------------------------------------------------------------------------------------------
// random exploration (no shadowing possible: one candidate per specifier)
struct Rng(u64);
impl Rng {
    fn next(&mut self) -> u64 {
        self.0 = self
            .0
            .wrapping_mul(6364136223846793005)
            .wrapping_add(1442695040888963407);
        self.0 >> 33
    }
    fn pick(&mut self, n: usize) -> usize {
        (self.next() % n as u64) as usize
    }
}

const POOL: &[(&str, &[&str])] = &[
    (
        "/p/a.ts",
        &[
            "import parse from './parser';\nimport { C } from './c';\nexport default parse.buildParsers<{ C: C }>();\n",
            "import parse from './parser';\nimport { B } from './b';\nexport default parse.buildParsers<{ B: B }>();\n",
            "import parse from './parser';\nimport * as N from './b';\nexport default parse.buildParsers<{ X: N.B }>();\n",
            "import parse from './parser';\nexport default parse.buildParsers<{ X: import('./c').C }>();\n",
            "import parse from './parser';\nimport { C } from './c'\nexport default parse.buildParsers<{ C: C >();\n",
            "import parse from './parser';\nimport D from './d';\nexport default parse.buildParsers<{ D: D }>();\n",
            "import parse from './parser';\nimport { C } from './c';\nimport { B } from './b';\n\nexport default parse.buildParsers<{ C: C, B: B }>();\n",
            "import parse from './parser';\nimport { Z } from './zz';\nimport { B } from './b';\nexport default parse.buildParsers<{ Z: Z, B: B }>();\n",
            "import parse from './parser';\nimport * as N from './b';\nexport default parse.buildParsers<{ X: N.C, Y: typeof N }>();\n",
        ],
    ),
    (
        "/p/b.ts",
        &[
            "export * from './c';\nexport type B = { b: string };\n",
            "import { C } from './c';\nexport type B = { c: C };\n",
            "export { C as B } from './c';\n",
            "export type B = { b: string \n",
            "export type B = import('./d').default;\n",
            "import { Z } from './zz';\nexport type B = Z;\n",
            "export * from './zz';\nexport * from './c';\nexport type B = 1;\n",
            "import D from './d';\nexport type B = D[];\nexport const v = 1;\n",
        ],
    ),
    (
        "/p/c.ts",
        &[
            "export type C = { x: string };\n",
            "\n\nexport type C = { x: number };\n",
            "export type C = { x: \n",
            "export type C = Missing;\n",
            "import { B } from './b';\nexport type C = { b?: B };\n",
            "export interface C {\n  /** doc */\n  x: string;\n}\n",
            "export type Z = 'from-c';\nexport type C = Z;\n",
        ],
    ),
    (
        "/p/d.ts",
        &[
            "type D = { d: 1 };\nexport default D;\n",
            "export * from './c';\ntype D = { d: 2 };\nexport default D;\n",
            "type D = { d: 1 ;\nexport default D;\n",
            "import { Z } from './zz';\ntype D = Z;\nexport default D;\n",
        ],
    ),
    (
        "/p/zz.ts",
        &[
            "export type Z = 1;\n",
            "export type Z = 2;\nexport type C = 'zz';\n",
            "export type Z = ;\n",
        ],
    ),
];

#[test]
fn random_walk() {
    let seeds: u64 = std::env::var("SEEDS").ok().and_then(|s| s.parse().ok()).unwrap_or(300);
    let len: usize = std::env::var("LEN").ok().and_then(|s| s.parse().ok()).unwrap_or(14);
    let mut total_bad = 0;
    for seed in 0..seeds {
        let bad = std::thread::spawn(move || {
            let mut rng = Rng(seed.wrapping_mul(0x9E3779B97F4A7C15) ^ 0xDEADBEEF);
            let mut init: Files = Files::new();
            init.insert("/p/parser.d.ts".into(), PARSER_DTS.into());
            for (f, vs) in POOL {
                // a.ts always there, others sometimes absent
                if *f == "/p/a.ts" || rng.pick(3) != 0 {
                    init.insert(f.to_string(), vs[rng.pick(vs.len())].to_string());
                }
            }
            let files = Rc::new(RefCell::new(init));
            verif::set_host(Box::new(MemHost { files: files.clone() }));
            let mut history: Vec<String> = vec![format!("init {:?}", files.borrow())];
            let mut bad = 0;
            for _ in 0..len {
                if rng.pick(5) < 3 {
                    let (f, vs) = POOL[rng.pick(POOL.len())];
                    let c = vs[rng.pick(vs.len())];
                    files.borrow_mut().insert(f.to_string(), c.to_string());
                    verif::update_file_content(f, c);
                    history.push(format!("write {} {:?}", f, c));
                } else {
                    history.push("build".into());
                    let here = build_here();
                    let snap = files.borrow().clone();
                    let f = fresh(&snap);
                    if here != f {
                        bad += 1;
                        println!("\n#### seed {} MISMATCH after history:", seed);
                        for h in &history {
                            println!("   {}", h);
                        }
                        println!("--- session:\n{}", short(&here));
                        println!("--- fresh:\n{}", short(&f));
                        break;
                    }
                }
            }
            bad
        })
        .join()
        .expect("session thread panicked");
        total_bad += bad;
    }
    println!("random_walk: {} seeds, {} mismatching", seeds, total_bad);
}

// same root cause through `export *` of a cached intermediate module, and with a shadowing file
// that does not parse (fresh: error; session: silently builds from the shadowed file)
#[test]
fn shadow_via_export_star_and_broken() {
    let n = run(
        "shadow_via_export_star_and_broken",
        &[
            ("/p/a.ts", "import parse from './parser';\nimport { C } from './b';\nexport default parse.buildParsers<{ C: C }>();\n"),
            ("/p/b.ts", "export * from './c';\n"),
            ("/p/parser.d.ts", PARSER_DTS),
            ("/p/c.d.ts", C_STRING),
        ],
        vec![
            Build,
            Write("/p/c.ts", "export type C = { x: \n"),
            Build,
            Write("/p/c.ts", C_NUMBER),
            Build,
        ],
    );
    println!("mismatches: {}", n);
}

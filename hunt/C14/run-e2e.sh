#!/bin/sh
# usage: _hunt/run-e2e.sh <scenario>     (builds the bridge, then runs the watch-mode end-to-end driver)
set -e
ROOT=/tmp/hunt-C14
export CARGO_NET_OFFLINE=true CARGO_TARGET_DIR=$ROOT/target
cd $ROOT
cp -n $ROOT/_hunt/hunt_c14_bridge.rs $ROOT/packages/beff-wasm/tests/ 2>/dev/null || true
cargo test -p beff_wasm --features beff_verif --test hunt_c14_bridge --offline --no-run 2>/dev/null
export BRIDGE_BIN=$(ls -t $ROOT/target/debug/deps/hunt_c14_bridge-* | grep -v '\.d$' | head -1)
export BRIDGE_TMP=$ROOT/_hunt/js
cd $ROOT/_hunt/js
/root/.nvm/versions/node/v22.22.2/bin/node --experimental-strip-types --no-warnings --import ./register.mjs e2e.mjs "$@"
rm -rf $ROOT/_hunt/js/work $ROOT/_hunt/js/bridge-*

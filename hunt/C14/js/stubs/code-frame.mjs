// minimal stand-in for @babel/code-frame's codeFrameColumns(rawLines, location, {message}):
// same contract (the caller passes the source text and a line/column range), simplified rendering
export const codeFrameColumns = (rawLines, loc, opts = {}) => {
  const lines = rawLines.split("\n");
  const start = Math.max(loc.start.line - 2, 1);
  const end = Math.min((loc.end?.line ?? loc.start.line) + 2, lines.length);
  const out = [];
  for (let n = start; n <= end; n++) {
    const marked = n >= loc.start.line && n <= (loc.end?.line ?? loc.start.line);
    out.push(`${marked ? ">" : " "} ${String(n).padStart(3)} | ${lines[n - 1]}`);
    if (n === loc.start.line) {
      const len = Math.max(1, (loc.end?.line === loc.start.line ? loc.end.column : loc.start.column + 1) - loc.start.column);
      out.push(`      | ${" ".repeat(Math.max(0, loc.start.column - 1))}${"^".repeat(len)} ${opts.message ?? ""}`);
    }
  }
  return out.join("\n");
};

export default { "codegen-v2.js": "/* codegen-v2 runtime */", "parser.d.ts": "declare const _default: { buildParsers: <T>() => any };\nexport default _default;\n" };

// records the watchers; the driver fires "change" events by hand
globalThis.__watchers = globalThis.__watchers ?? {};
export default {
  watch(p) {
    return {
      on(ev, cb) {
        if (ev === "change") globalThis.__watchers[p] = cb;
        return this;
      },
    };
  },
};

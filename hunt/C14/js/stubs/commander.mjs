export class Command {
  name() { return this; }
  description() { return this; }
  option() { return this; }
  parse() { return this; }
  opts() { return globalThis.__beffOpts; }
}

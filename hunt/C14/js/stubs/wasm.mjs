// stands in for ../pkg/beff_wasm (the wasm-bindgen output): forwards every call to the real Rust
// session (tests/hunt_c14_bridge.rs, native build with the beff_verif feature) over two FIFOs and
// serves its host callbacks from globalThis.resolve_import / read_file_content / emit_diagnostic.
import * as fs from "node:fs";
import * as os from "node:os";
import * as path from "node:path";
import { spawn, execFileSync } from "node:child_process";

const bin = process.env.BRIDGE_BIN;
if (!bin) throw new Error("BRIDGE_BIN not set");
const dir = fs.mkdtempSync(path.join(process.env.BRIDGE_TMP ?? os.tmpdir(), "bridge-"));
const pin = path.join(dir, "in");
const pout = path.join(dir, "out");
execFileSync("mkfifo", [pin, pout]);
const child = spawn(bin, ["--nocapture", "--exact", "bridge"], {
  env: { ...process.env, BRIDGE_IN: pin, BRIDGE_OUT: pout },
  stdio: ["ignore", "ignore", process.env.BRIDGE_STDERR ? "inherit" : "ignore"],
});
child.unref();
const w = fs.openSync(pin, "w");
const r = fs.openSync(pout, "r");
process.on("exit", () => {
  try { fs.closeSync(w); fs.closeSync(r); fs.rmSync(dir, { recursive: true, force: true }); } catch {}
});

let pending = Buffer.alloc(0);
const recv = () => {
  for (;;) {
    const i = pending.indexOf(10);
    if (i >= 0) {
      const line = pending.subarray(0, i).toString("utf-8");
      pending = pending.subarray(i + 1);
      return JSON.parse(line);
    }
    const buf = Buffer.alloc(65536);
    const n = fs.readSync(r, buf, 0, buf.length, null);
    if (n === 0) throw new Error("bridge closed");
    pending = Buffer.concat([pending, buf.subarray(0, n)]);
  }
};
const send = (v) => fs.writeSync(w, JSON.stringify(v) + "\n");
const call = (msg) => {
  send(msg);
  for (;;) {
    const m = recv();
    if (m.cb === "resolve") send({ val: globalThis.resolve_import(m.file, m.spec) ?? null });
    else if (m.cb === "read") send({ val: globalThis.read_file_content(m.file) ?? null });
    else return m;
  }
};

export const init = (_verbose) => {};
export const bundle_to_string_v2 = (entry, settings) => {
  const m = call({ op: "bundle", entry, settings });
  for (const d of m.emitted ?? []) globalThis.emit_diagnostic(d);
  return m.ret ?? undefined;
};
export const bundle_to_diagnostics = (entry, settings) => call({ op: "diag", entry, settings }).ret;
export const update_file_content = (file, content) => void call({ op: "update", file, content });

const id = (s) => s;
const mk = () => Object.assign((s) => s, { bold: id });
export const red = mk();
export const green = mk();
export const yellow = mk();
export default { red, green, yellow };

// Watch-mode end to end: the real commandeer.ts / bundler.ts / bundle-to-disk.ts (watch mode, chokidar
// events fired by hand) on top of the real Rust session, compared after every rebuild with a
// brand-new one-shot CLI process on the same directory contents.
//   node --experimental-strip-types --import ./register.mjs e2e.mjs <scenario>
import * as fs from "node:fs";
import * as path from "node:path";
import { fileURLToPath, pathToFileURL } from "node:url";
import { spawnSync } from "node:child_process";
const here = path.dirname(fileURLToPath(import.meta.url));

const PARSER_DTS = "declare const _default: { buildParsers: <T>() => any };\nexport default _default;\n";
const BASE = {
  "bff.json": JSON.stringify({ parser: "./a.ts", outputDir: "./generated" }),
  "tsconfig.json": JSON.stringify({ compilerOptions: { strict: true } }),
  "generated/parser.d.ts": PARSER_DTS,
};
const A = (body) => `import parse from "./generated/parser";\n${body}`;

const SCENARIOS = {
  // control: a first run without generated/ and a broken / fixed / unresolved / created sequence
  baseline_flow: {
    files: {
      "bff.json": BASE["bff.json"],
      "tsconfig.json": BASE["tsconfig.json"],
      "a.ts": A(`import { C } from "./c";\nexport default parse.buildParsers<{ C: C }>();\n`),
      "c.ts": "export type C = { x: string };\n",
    },
    steps: [
      { write: "c.ts", content: "export type C = { x: \n" },
      { write: "c.ts", content: "/** doc */\nexport type C = { x: boolean; y: Nope };\n" },
      { write: "c.ts", content: "import { Z } from \"./zz\";\nexport type C = { x: boolean; z: Z };\n" },
      { create: "zz.ts", content: "export type Z = 1;\n" },
      { write: "a.ts", content: A(`import { C } from "./c";\n\nexport default parse.buildParsers<{ C: C }>();\n`) },
      { write: "zz.ts", content: "export type Z = 2;\n" },
      { write: "a.ts", content: A(`import { C } from "./c";\nexport default parse.buildParsers<{ C: C, D: Missing }>();\n`) },
      { write: "a.ts", content: A(`import { C } from "./c";\nexport default parse.buildParsers<{ C: C }>();\n`) },
    ],
  },
  // diagnostics of a rebuild are rendered from the file text read for the FIRST diagnostic
  stale_code_frame: {
    files: {
      ...BASE,
      "a.ts": A(`type T = { first: FirstMissing };\nexport default parse.buildParsers<{ T: T }>();\n`),
    },
    steps: [
      { write: "a.ts", content: A(`// a comment pushes everything down\n// by two lines\ntype T = { second: number; other: SecondMissing };\nexport default parse.buildParsers<{ T: T }>();\n`) },
    ],
  },
  // the JS host remembers successful resolutions for ever
  resolved_cache_shadow: {
    files: {
      ...BASE,
      "a.ts": A(`import { C } from "./c";\nexport default parse.buildParsers<{ C: C }>();\n`),
      "c/index.ts": "export type C = { x: string };\n",
    },
    steps: [
      { create: "c.ts", content: "export type C = { x: number };\n" },
      // editing the importer makes the Rust side parse it and resolve its imports again
      { write: "a.ts", content: A(`import { C } from "./c";\n\nexport default parse.buildParsers<{ C: C }>();\n`) },
    ],
  },
  // paths in tsconfig.json are read once per process
  tsconfig_paths: {
    files: {
      ...BASE,
      "tsconfig.json": JSON.stringify({ compilerOptions: { baseUrl: ".", paths: { "@types/*": ["./v1/*"] } } }),
      "a.ts": A(`import { C } from "@types/c";\nexport default parse.buildParsers<{ C: C }>();\n`),
      "v1/c.ts": "export type C = { x: string };\n",
      "v1/d.ts": "export type C = { x: string };\n",
      "v2/c.ts": "export type C = { x: number };\n",
      "v2/d.ts": "export type C = { x: number };\n",
    },
    steps: [
      { create: "tsconfig.json", content: JSON.stringify({ compilerOptions: { baseUrl: ".", paths: { "@types/*": ["./v2/*"] } } }) },
      // a specifier the JS resolution cache has never seen: only the cached compiler options are stale
      { write: "a.ts", content: A(`import { C } from "@types/d";\nexport default parse.buildParsers<{ C: C }>();\n`) },
    ],
  },
};

const name = process.argv[2];
const sc = SCENARIOS[name];
if (!sc) {
  console.log("scenarios:", Object.keys(SCENARIOS).join(" "));
  process.exit(2);
}
const work = path.join(here, "work", name);
fs.rmSync(work, { recursive: true, force: true });
const put = (rel, content) => {
  const p = path.join(work, rel);
  fs.mkdirSync(path.dirname(p), { recursive: true });
  fs.writeFileSync(p, content);
};
for (const [rel, content] of Object.entries(sc.files)) put(rel, content);
process.chdir(work);

const realLog = console.log.bind(console);
let captured = [];
const cap = (...a) => captured.push(a.join(" "));
const scrub = (s) => s.replace(/Finished in \d+ms/g, "Finished in <N>ms");
const parserJs = path.join(work, "generated/parser.js");
const takeOutput = () => {
  const out = { console: scrub(captured.join("\n")), parserJs: fs.existsSync(parserJs) ? fs.readFileSync(parserJs, "utf-8") : null };
  captured = [];
  return out;
};
const fresh = () => {
  fs.rmSync(parserJs, { force: true });
  const r = spawnSync(process.execPath, ["--experimental-strip-types", "--no-warnings", "--import", path.join(here, "register.mjs"), path.join(here, "fresh.mjs"), path.join(work, "bff.json")], { cwd: work, encoding: "utf-8", env: process.env });
  // stdout and stderr are interleaved by the CLI; keep both, in a fixed order
  const out = { console: scrub((r.stderr + r.stdout).trim()), parserJs: fs.existsSync(parserJs) ? fs.readFileSync(parserJs, "utf-8") : null, status: r.status };
  return out;
};
const show = (label, o) => {
  realLog(`--- ${label}: parser.js ${o.parserJs == null ? "NOT WRITTEN" : "written"}`);
  if (o.parserJs != null) realLog(o.parserJs.split("\n").filter((l) => /Runtype|hoist/.test(l)).join("\n"));
  realLog(o.console.replace(/^/gm, "    | "));
};
// compare modulo ordering of stdout/stderr lines
const norm = (s) => s.split("\n").map((l) => l.trimEnd()).filter((l) => l !== "" && !/^File changed/.test(l) && !/^Finished in/.test(l)).sort().join("\n");
const compare = (step, sess) => {
  const f = fresh();
  const same = sess.parserJs === f.parserJs && norm(sess.console) === norm(f.console);
  realLog(`\n===== ${name} / ${step}: session rebuild ${same ? "==" : "DIFFERS FROM"} fresh process =====`);
  show("watch session", sess);
  show("fresh process", f);
  return same;
};

console.log = cap;
console.error = cap;
globalThis.__beffOpts = { project: path.join(work, "bff.json"), watch: true, verbose: false };
const { commanderExec } = await import(pathToFileURL(path.join(here, "../../packages/beff-wasm/ts-node/commandeer.ts")).href);
fs.rmSync(parserJs, { force: true });
commanderExec();
let bad = 0;
if (!compare("initial build", takeOutput())) bad++;
let i = 0;
for (const st of sc.steps) {
  i++;
  fs.rmSync(parserJs, { force: true });
  const rel = st.write ?? st.create;
  put(rel, st.content);
  const abs = path.join(work, rel);
  if (st.write) {
    const cb = globalThis.__watchers[abs];
    if (!cb) throw new Error("not watched: " + abs + " watched: " + Object.keys(globalThis.__watchers));
    cb(abs); // chokidar "change" event -> updateFile -> update_file_content + rebuild
    if (!compare(`step ${i}: edit ${rel} (change event, rebuild)`, takeOutput())) bad++;
  } else {
    realLog(`\n(step ${i}: ${rel} written; it is not a watched file, so no rebuild yet)`);
  }
}
realLog(`\n${name}: ${bad} rebuild(s) differ from a fresh process`);
process.exit(0);

// loader hooks: run packages/beff-wasm/ts-node/*.ts unmodified, with stubs for what is not installed
import * as fs from "node:fs";
import * as path from "node:path";
import { fileURLToPath, pathToFileURL } from "node:url";
const here = path.dirname(fileURLToPath(import.meta.url));
const stub = (n) => pathToFileURL(path.join(here, "stubs", n)).href;
const STUBS = {
  "../pkg/beff_wasm": stub("wasm.mjs"),
  chalk: stub("chalk.mjs"),
  "@babel/code-frame": stub("code-frame.mjs"),
  chokidar: stub("chokidar.mjs"),
  commander: stub("commander.mjs"),
  "./generated/bundle": stub("bundle.mjs"),
};
export async function resolve(specifier, context, next) {
  if (STUBS[specifier]) return { url: STUBS[specifier], shortCircuit: true };
  if ((specifier.startsWith("./") || specifier.startsWith("../")) && context.parentURL?.startsWith("file:")) {
    const base = path.resolve(path.dirname(fileURLToPath(context.parentURL)), specifier);
    if (fs.existsSync(base + ".ts"))
      return { url: pathToFileURL(base + ".ts").href, format: "module-typescript", shortCircuit: true };
    if (fs.existsSync(base + ".js")) return { url: pathToFileURL(base + ".js").href, format: "commonjs", shortCircuit: true };
  }
  const r = await next(specifier, context);
  if (r.url.endsWith(".ts")) return { ...r, format: "module-typescript" };
  return r;
}
// esbuild (the real build) drops imports that are only used as types; Node's type stripping cannot.
// The only such imports in ts-node/ come from "./project": keep its one value export.
export async function load(url, context, next) {
  if (url.startsWith("file:") && url.endsWith(".ts") && url.includes("/beff-wasm/ts-node/")) {
    let source = fs.readFileSync(fileURLToPath(url), "utf-8");
    source = source.replace(/import \{([^}]*)\} from "\.\/project";/g, (_m, names) => {
      const keep = names.split(",").map((s) => s.trim()).filter((s) => s === "parseUserSettings");
      return keep.length ? `import { ${keep.join(", ")} } from "./project";` : "";
    });
    return { format: "module-typescript", source, shortCircuit: true };
  }
  return next(url, context);
}

// one-shot (non-watch) run of the real CLI entry, like `beff -p <bff.json>` in a new process
import * as path from "node:path";
import { fileURLToPath, pathToFileURL } from "node:url";
const here = path.dirname(fileURLToPath(import.meta.url));
globalThis.__beffOpts = { project: process.argv[2], watch: false, verbose: false };
const { commanderExec } = await import(pathToFileURL(path.join(here, "../../packages/beff-wasm/ts-node/commandeer.ts")).href);
commanderExec();

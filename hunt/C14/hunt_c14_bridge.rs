// C14 hunt: a bridge that lets the REAL ts-node host code (bundler.ts / commandeer.ts, loaded by
// Node with stubs for the npm packages that are not installed) drive the REAL Rust session.
// The test binary talks JSON lines over two FIFOs: BRIDGE_IN (node -> rust), BRIDGE_OUT (rust -> node).
// Host callbacks (resolve_import / read_file_content) are forwarded to Node synchronously.
use beff_wasm::verif;
use serde_json::{Value, json};
use std::cell::RefCell;
use std::fs::File;
use std::io::{BufRead, BufReader, Write};
use std::rc::Rc;

struct Chan {
    r: BufReader<File>,
    w: File,
}
impl Chan {
    fn send(&mut self, v: Value) {
        let mut s = serde_json::to_string(&v).unwrap();
        s.push('\n');
        self.w.write_all(s.as_bytes()).unwrap();
        self.w.flush().unwrap();
    }
    fn recv(&mut self) -> Option<Value> {
        let mut line = String::new();
        let n = self.r.read_line(&mut line).unwrap();
        if n == 0 {
            return None;
        }
        Some(serde_json::from_str(&line).unwrap())
    }
}

struct BridgeHost {
    ch: Rc<RefCell<Chan>>,
}
impl verif::Host for BridgeHost {
    fn resolve_import(&mut self, current_file: &str, specifier: &str) -> Option<String> {
        let mut ch = self.ch.borrow_mut();
        ch.send(json!({"cb": "resolve", "file": current_file, "spec": specifier}));
        ch.recv()?["val"].as_str().map(|s| s.to_string())
    }
    fn read_file_content(&mut self, file_name: &str) -> Option<String> {
        let mut ch = self.ch.borrow_mut();
        ch.send(json!({"cb": "read", "file": file_name}));
        ch.recv()?["val"].as_str().map(|s| s.to_string())
    }
}

#[test]
fn bridge() {
    let (Ok(pin), Ok(pout)) = (std::env::var("BRIDGE_IN"), std::env::var("BRIDGE_OUT")) else {
        println!("bridge: BRIDGE_IN / BRIDGE_OUT not set, nothing to do");
        return;
    };
    let r = BufReader::new(File::open(pin).unwrap());
    let w = std::fs::OpenOptions::new().write(true).open(pout).unwrap();
    let ch = Rc::new(RefCell::new(Chan { r, w }));
    verif::set_host(Box::new(BridgeHost { ch: ch.clone() }));
    loop {
        let msg = ch.borrow_mut().recv();
        let Some(msg) = msg else { break };
        let op = msg["op"].as_str().unwrap_or("");
        match op {
            "bundle" => {
                let res = verif::bundle_to_string(
                    msg["entry"].as_str().unwrap(),
                    msg["settings"].as_str().unwrap(),
                );
                let emitted = verif::take_emitted_diagnostics();
                let mut c = ch.borrow_mut();
                c.send(json!({"ret": res.ok(), "emitted": emitted}));
            }
            "diag" => {
                let res = verif::bundle_to_diagnostics(
                    msg["entry"].as_str().unwrap(),
                    msg["settings"].as_str().unwrap(),
                );
                ch.borrow_mut().send(json!({"ret": res}));
            }
            "update" => {
                verif::update_file_content(
                    msg["file"].as_str().unwrap(),
                    msg["content"].as_str().unwrap(),
                );
                ch.borrow_mut().send(json!({"ret": null}));
            }
            _ => break,
        }
    }
}

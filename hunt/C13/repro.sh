#!/bin/sh
# reproduces findings 1-6 (see findings.json)
cd /tmp/hunt-C13/_hunt
NODE="/root/.nvm/versions/node/v22.22.2/bin/node --no-warnings --import ./register.mjs"
./compile.sh /tmp/hunt-C13/_hunt/findings
echo "=== F1 template literal: equal digests, validators disagree"
$NODE cmp.mjs findings/f1_regex_a.ts.cgen.js findings/f1_regex_b.ts.cgen.js T '"xa"' '"x(\"a\" | \"b\")zz"'
echo "=== F2 locale-dependent digest"
for L in en_US.UTF-8 sv_SE.UTF-8 da_DK.UTF-8; do LC_ALL=$L $NODE t_locale.mjs; done
echo "=== F3 renaming nested types of a discriminated union"
$NODE cmp.mjs findings/f3_names_a.ts.cgen.js findings/f3_names_b.ts.cgen.js T
echo "=== F4 a JSDoc comment changes hash256"
$NODE cmp.mjs findings/f4_comment_a.ts.cgen.js findings/f4_comment_b.ts.cgen.js T
echo "=== F5 alias boundary changes the 32-bit hash() of a recursive type"
$NODE cmp.mjs findings/f5_alias_a.ts.cgen.js findings/f5_alias_b.ts.cgen.js T '{"l":{"next":{"next":null}}}'
echo "=== F6 lone surrogates (b.Const / b.Object keys)"
$NODE t_misc.mjs

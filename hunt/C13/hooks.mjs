// ESM loader hooks: map ./x.js -> ./x.ts inside packages/beff-client/src, stub zod,
// map "@beff/client/codegen-v2" to the client source, and give every `export type/interface X`
// a dummy value export so that un-elided type imports link.
import { readFileSync, existsSync } from "node:fs";
import { fileURLToPath, pathToFileURL } from "node:url";
import { stripTypeScriptTypes } from "node:module";
import path from "node:path";

const ROOT = path.resolve(path.dirname(fileURLToPath(import.meta.url)), "..");
const CLIENT = path.join(ROOT, "packages/beff-client/src");

export async function resolve(specifier, context, nextResolve) {
  if (specifier === "zod") {
    return { url: "data:text/javascript,export const z = {custom(){return {}}};", shortCircuit: true };
  }
  if (specifier === "@beff/client/codegen-v2") {
    return { url: pathToFileURL(path.join(CLIENT, "codegen-v2.ts")).href, shortCircuit: true };
  }
  if (specifier === "@beff/client") {
    return { url: pathToFileURL(path.join(CLIENT, "index.ts")).href, shortCircuit: true };
  }
  if (specifier.startsWith(".") && specifier.endsWith(".js") && context.parentURL?.startsWith("file:")) {
    const p = path.resolve(path.dirname(fileURLToPath(context.parentURL)), specifier);
    const ts = p.slice(0, -3) + ".ts";
    if (!existsSync(p) && existsSync(ts)) {
      return { url: pathToFileURL(ts).href, shortCircuit: true };
    }
  }
  return nextResolve(specifier, context);
}

export async function load(url, context, nextLoad) {
  if (url.startsWith("file:") && url.endsWith(".ts")) {
    const src = readFileSync(fileURLToPath(url), "utf8");
    let js = stripTypeScriptTypes(src, { mode: "strip" });
    const names = new Set();
    for (const m of src.matchAll(/^export\s+(?:type|interface)\s+([A-Za-z_$][\w$]*)/gm)) names.add(m[1]);
    for (const n of names) {
      const hasValue = new RegExp(`(?:const|let|var|function|class)\\s+${n.replace(/\$/g, "\\$")}\\b`).test(js);
      if (!hasValue) js += `\nexport const ${n} = undefined;`;
    }
    return { format: "module", source: js, shortCircuit: true };
  }
  return nextLoad(url, context);
}

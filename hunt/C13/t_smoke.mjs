import { b, buntyped } from "@beff/client";
const p = b.Object({ a: b.String() });
console.log(p.hash(), p.hash256(), p.validate({ a: "x" }));

// differential test of Hash256Writer against node:crypto over random write sequences
import { Hash256Writer } from "../packages/beff-client/src/hash.ts";
import { createHash } from "node:crypto";
const enc = new TextEncoder();
function u32(n) { return Buffer.from([(n >>> 24) & 255, (n >>> 16) & 255, (n >>> 8) & 255, n & 255]); }
function str(tag, s) { const b = Buffer.from(enc.encode(s)); return Buffer.concat([Buffer.from([tag]), u32(b.length), b]); }
let seed = 12345;
function rnd(n) { seed = (seed * 1103515245 + 12345) & 0x7fffffff; return seed % n; }
let bad = 0, total = 0;
for (let iter = 0; iter < 20000; iter++) {
  const w = new Hash256Writer();
  const parts = [];
  const nOps = rnd(8);
  for (let i = 0; i < nOps; i++) {
    const op = rnd(5);
    if (op === 0) { const s = "x".repeat(rnd(140)); w.updateTag(s); parts.push(str(1, s)); }
    else if (op === 1) { const s = "é€😀".repeat(rnd(20)) + "y".repeat(rnd(70)); w.updateString(s); parts.push(str(2, s)); }
    else if (op === 2) { const n = [0, -0, NaN, 1e21, 1.5, -7, Infinity][rnd(7)]; w.updateNumber(n); parts.push(str(3, Number.isNaN(n) ? "NaN" : Object.is(n, -0) ? "-0" : String(n))); }
    else if (op === 3) { const v = rnd(2) === 1; w.updateBoolean(v); parts.push(Buffer.from([v ? 4 : 5])); }
    else { w.updateNull(); parts.push(Buffer.from([6])); }
  }
  const all = Buffer.concat(parts);
  const want = createHash("sha256").update(all).digest("hex");
  const got = w.digestHex();
  total++;
  if (want !== got) { bad++; if (bad < 5) console.log("MISMATCH len", all.length, want, got); }
}
// every total length 0..300 via a single string write
for (let len = 0; len <= 300; len++) {
  const w = new Hash256Writer();
  const s = "a".repeat(len);
  w.updateString(s);
  const want = createHash("sha256").update(str(2, s)).digest("hex");
  total++;
  if (want !== w.digestHex()) { bad++; console.log("MISMATCH single len", len); }
}
// big one: > 2^29 bytes so that bit length exceeds 2^32
{
  const w = new Hash256Writer();
  const h = createHash("sha256");
  const s = "b".repeat(1 << 26);
  for (let i = 0; i < 9; i++) { w.updateString(s); h.update(str(2, s)); }
  total++;
  if (h.digest("hex") !== w.digestHex()) { bad++; console.log("MISMATCH big"); }
}
console.log({ total, bad });

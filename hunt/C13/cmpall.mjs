// compares hash()/hash256() of parser T for every pair progs/<id>_a.ts.cgen.js / progs/<id>_b.ts.cgen.js
import { loadCgen } from "./lib.mjs";
import { readdirSync, existsSync, readFileSync } from "node:fs";
import path from "node:path";
import { fileURLToPath } from "node:url";
const DIR = path.join(path.dirname(fileURLToPath(import.meta.url)), "progs");
const ids = [...new Set(readdirSync(DIR).filter((f) => /_a\.ts$/.test(f)).map((f) => f.replace(/_a\.ts$/, "")))].sort();
const only = process.argv[2];
for (const id of ids) {
  if (only && !id.startsWith(only)) continue;
  const fa = `${DIR}/${id}_a.ts.cgen.js`;
  const fb = `${DIR}/${id}_b.ts.cgen.js`;
  if (!existsSync(fa) || !existsSync(fb)) {
    const ea = existsSync(`${DIR}/${id}_a.ts.err.txt`) ? readFileSync(`${DIR}/${id}_a.ts.err.txt`, "utf8").slice(0, 150) : "";
    const eb = existsSync(`${DIR}/${id}_b.ts.err.txt`) ? readFileSync(`${DIR}/${id}_b.ts.err.txt`, "utf8").slice(0, 150) : "";
    console.log(id, "COMPILE-ERR", JSON.stringify(ea), JSON.stringify(eb));
    continue;
  }
  try {
    const A = loadCgen(fa).parsers.T;
    const B = loadCgen(fb).parsers.T;
    const h = A.hash() === B.hash();
    const h256 = A.hash256() === B.hash256();
    console.log(id, h ? "hash=" : "HASH-DIFF", h256 ? "h256=" : "H256-DIFF");
  } catch (e) {
    console.log(id, "RUNTIME-ERR", String(e).slice(0, 200));
  }
}

type T = string | number | null;
parse.buildParsers<{ T: T }>();

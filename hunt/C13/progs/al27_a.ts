type D = Date; type T = { d: D };
parse.buildParsers<{ T: T }>();

type T = { /** x */ [k: string]: number };
parse.buildParsers<{ T: T }>();

type T = [string, number, ...string[]];
parse.buildParsers<{ T: T }>();

type T = { b: number };
parse.buildParsers<{ T: T }>();

type T = { k: "a"; v: string } | { k: "b"; v: number } | { k: "a"; w: boolean };
parse.buildParsers<{ T: T }>();

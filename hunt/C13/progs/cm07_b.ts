type R = { next: R | null }; type T = R;
parse.buildParsers<{ T: T }>();

type T = [string, number?];
parse.buildParsers<{ T: T }>();

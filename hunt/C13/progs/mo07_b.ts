enum E { B = "b", A = "a" } type T = E;
parse.buildParsers<{ T: T }>();

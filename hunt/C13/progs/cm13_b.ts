type N1 = { next: N2 | null }; type N2 = { next: N2 | null }; type T = N1;
parse.buildParsers<{ T: T }>();

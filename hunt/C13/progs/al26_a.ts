interface I { a: string } interface J extends I { b: number } type T = J;
parse.buildParsers<{ T: T }>();

type R = { /** n */ next: R | null }; type T = R;
parse.buildParsers<{ T: T }>();

type A = Array<string>; type T = { a: A };
parse.buildParsers<{ T: T }>();

type R = { next: Q | null }; type Q = R; type T = { l: Q };
parse.buildParsers<{ T: T }>();

type A = { t: "a"; x: string }; type B = { t: "b"; y: number }; type AB = A | B; type T = AB | { t: "c" };
parse.buildParsers<{ T: T }>();

type T = { a?: string };
parse.buildParsers<{ T: T }>();

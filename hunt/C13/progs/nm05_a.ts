type Box<X> = { v: X }; type T = { a: Box<string>; b: Box<number> };
parse.buildParsers<{ T: T }>();

type T = { [k: string]: number; a: number };
parse.buildParsers<{ T: T }>();

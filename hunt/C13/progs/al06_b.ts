type T = "b" | "c";
parse.buildParsers<{ T: T }>();

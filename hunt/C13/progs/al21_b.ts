type T = 1 | 2 | "s";
parse.buildParsers<{ T: T }>();

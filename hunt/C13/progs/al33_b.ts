type T = { m: Map<string, number> };
parse.buildParsers<{ T: T }>();

type Crate<Y> = { v: Y }; type T = { a: Crate<string>; b: Crate<number> };
parse.buildParsers<{ T: T }>();

type T = "a" | "a" | "b";
parse.buildParsers<{ T: T }>();

type O = { a: string }; type T = { o: O }["o"];
parse.buildParsers<{ T: T }>();

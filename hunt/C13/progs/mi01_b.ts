type T = { "9": number; "10": string };
parse.buildParsers<{ T: T }>();

type T = { c?: boolean; b: number; a: string };
parse.buildParsers<{ T: T }>();

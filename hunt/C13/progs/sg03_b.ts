type T = `a\udbff${string}`;
parse.buildParsers<{ T: T }>();

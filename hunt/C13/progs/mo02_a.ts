type T = "a" | 1 | true | "1";
parse.buildParsers<{ T: T }>();

type L = 1 | 2; type T = L | "s";
parse.buildParsers<{ T: T }>();

type T = { t: "a"; x: string } | { t: "b"; y: number };
parse.buildParsers<{ T: T }>();

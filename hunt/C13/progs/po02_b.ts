type T = { x: string; t: "a" } | { t: "b"; y: number };
parse.buildParsers<{ T: T }>();

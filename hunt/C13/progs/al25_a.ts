interface I { a: string } type T = I;
parse.buildParsers<{ T: T }>();

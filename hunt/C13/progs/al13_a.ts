type O = { a: string }; type T = O & { b: number };
parse.buildParsers<{ T: T }>();

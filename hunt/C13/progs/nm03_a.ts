type Apple = { n: number }; type Zebra = { s: string }; type T = [Apple, Zebra] | [Zebra];
parse.buildParsers<{ T: T }>();

type T = { /** x */ a: string } | { a: string };
parse.buildParsers<{ T: T }>();

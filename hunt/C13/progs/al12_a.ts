type S = string; type T = [S, number, ...S[]];
parse.buildParsers<{ T: T }>();

type A = { t: "a" }; type B = { t: "b" }; type T = A | B;
parse.buildParsers<{ T: T }>();

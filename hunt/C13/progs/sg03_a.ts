type T = `a\ud800${string}`;
parse.buildParsers<{ T: T }>();

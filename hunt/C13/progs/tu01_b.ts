type T = [string, number | undefined];
parse.buildParsers<{ T: T }>();

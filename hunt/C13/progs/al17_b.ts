type T = "a" | "b";
parse.buildParsers<{ T: T }>();

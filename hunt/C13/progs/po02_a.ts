type T = { t: "a"; x: string } | { y: number; t: "b" };
parse.buildParsers<{ T: T }>();

type F<X> = X | null; type T = { a: F<string> };
parse.buildParsers<{ T: T }>();

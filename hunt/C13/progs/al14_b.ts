type T = { a?: string | undefined };
parse.buildParsers<{ T: T }>();

type T = { x: string };
parse.buildParsers<{ T: T }>();

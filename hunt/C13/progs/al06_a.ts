type U = "a" | "b" | "c"; type T = Exclude<U, "a">;
parse.buildParsers<{ T: T }>();

type O = { /** x */ a: string }; type T = O & { /** y */ a: string };
parse.buildParsers<{ T: T }>();

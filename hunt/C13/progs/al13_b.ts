type T = { a: string; b: number };
parse.buildParsers<{ T: T }>();

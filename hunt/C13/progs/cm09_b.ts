enum E { A = "a", B = "b" } type T = E;
parse.buildParsers<{ T: T }>();

type T = { 10: string; 9: number; a: boolean };
parse.buildParsers<{ T: T }>();

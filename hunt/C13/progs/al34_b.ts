type T = { a: string } | null;
parse.buildParsers<{ T: T }>();

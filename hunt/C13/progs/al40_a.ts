type A = { x: string } ; type T = A & {};
parse.buildParsers<{ T: T }>();

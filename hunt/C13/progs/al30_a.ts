type R = { next: R | null }; type T = { l: R };
parse.buildParsers<{ T: T }>();

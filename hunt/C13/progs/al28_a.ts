type F<X> = { v: X }; type T = F<string>;
parse.buildParsers<{ T: T }>();

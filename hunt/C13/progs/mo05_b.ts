type T = { c: number } & ({ b: string } | { a: string });
parse.buildParsers<{ T: T }>();

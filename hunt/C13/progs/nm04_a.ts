type A = { b: B | null }; type B = { a: A | null }; type T = A;
parse.buildParsers<{ T: T }>();

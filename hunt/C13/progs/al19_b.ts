type T = `p-${"x" | "y"}`;
parse.buildParsers<{ T: T }>();

type O = { a: string }; type T = O & { a: string };
parse.buildParsers<{ T: T }>();

type Zulu = { n: number }; type Alpha = { s: string }; type T = [Zulu, Alpha] | [Alpha];
parse.buildParsers<{ T: T }>();

type T = 1 | -1 | 10 | 2 | 1.5;
parse.buildParsers<{ T: T }>();

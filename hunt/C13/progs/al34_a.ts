type A = { a: string }; type T = A | null;
parse.buildParsers<{ T: T }>();

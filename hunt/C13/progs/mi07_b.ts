type T = { w: boolean; k: "a" } | { v: number; k: "b" } | { v: string; k: "a" };
parse.buildParsers<{ T: T }>();

type T = `x("a" | "b")${string}`;
parse.buildParsers<{ T: T }>();

// maps ./x.js -> ./x.ts inside packages/beff-client/src and stubs zod
import { existsSync } from "node:fs";
import { fileURLToPath, pathToFileURL } from "node:url";
import path from "node:path";
export async function resolve(specifier, context, next) {
  if (specifier === "zod") {
    return { url: "data:text/javascript,export const z = {}; export default {};", shortCircuit: true };
  }
  if (specifier.startsWith(".") && specifier.endsWith(".js") && context.parentURL?.startsWith("file:")) {
    const p = path.resolve(path.dirname(fileURLToPath(context.parentURL)), specifier.replace(/\.js$/, ".ts"));
    if (existsSync(p)) return { url: pathToFileURL(p).href, shortCircuit: true };
  }
  return next(specifier, context);
}
// the client sources import some types without the `type` keyword; type stripping keeps such imports and
// they fail at link time. Named imports from relative modules are turned into a namespace import plus a
// destructuring, which tolerates names that only exist as types.
export async function load(url, context, next) {
  const res = await next(url, context);
  if (url.includes("/packages/beff-client/src/") && url.endsWith(".ts")) {
    let src = res.source.toString();
    let n = 0;
    src = src.replace(/import\s*\{([^}]*)\}\s*from\s*"(\.[^"]+)";/g, (_m, names, spec) => {
      const id = "__ns" + n++;
      const parts = names
        .split(",")
        .map((s) => s.trim())
        .filter((s) => s && !s.startsWith("type "))
        .map((s) => s.replace(/\s+as\s+/, ": "));
      return `import * as ${id} from "${spec}"; const { ${parts.join(", ")} } = ${id};`;
    });
    return { ...res, source: src };
  }
  return res;
}

// usage: node --experimental-strip-types --import ./_hunt/node/register.mjs _hunt/node/validate.mjs <case> <parserName> '<json value>' ...
// Assembles the parser module the way packages/beff-wasm/ts-node/bundle-to-disk.ts does (prelude from
// packages/beff-wasm/bundled-code/codegen-v2.js + generated code) on top of packages/beff-client/src.
import fs from "node:fs";
import path from "node:path";
import { pathToFileURL } from "node:url";
const root = path.resolve(path.dirname(new URL(import.meta.url).pathname), "../..");
const [caseName, parserName, ...values] = process.argv.slice(2);
const prelude = fs
  .readFileSync(path.join(root, "packages/beff-wasm/bundled-code/codegen-v2.js"), "utf8")
  .replace('"@beff/client/codegen-v2"', JSON.stringify(pathToFileURL(path.join(root, "packages/beff-client/src/codegen-v2.ts")).href));
const gen = fs.readFileSync(path.join(root, "target/hunt-out", caseName + ".js"), "utf8");
const src = [prelude, "const RequiredStringFormats = [];", "const RequiredNumberFormats = [];", gen, "export default { buildParsers };"].join("\n");
const tmp = path.join(root, "target/hunt-out", caseName + ".assembled.mjs");
fs.writeFileSync(tmp, src);
const mod = await import(pathToFileURL(tmp).href);
const parsers = mod.default.buildParsers({});
for (const v of values) {
  const value = JSON.parse(v);
  console.log(caseName, parserName, v, "=> validate:", parsers[parserName].validate(value));
}

export type A = string;

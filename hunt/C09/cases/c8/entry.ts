import { A } from "./a";
function f() { type A = number; const z: A = 1; return z; }
export type T = { a: A };
parse.buildParsers<{ T: T }>();

import { Meta } from "./meta";
export type Wrapper<Data> = { data: Data; meta: Meta };
parse.buildParsers<{ W: Wrapper<number> }>();

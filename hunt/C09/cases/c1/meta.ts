type Data = string;
export type Meta = { d: Data };

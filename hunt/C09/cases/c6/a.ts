export type A = { x: string };

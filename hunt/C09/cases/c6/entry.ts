import { A } from "./a";
const A = { y: 1 };
export type T = typeof A;
export type U = A;
parse.buildParsers<{ T: T, U: U }>();

export const y = "s";
export const x = 1;

export * as a from "./a";
export const y = 1;

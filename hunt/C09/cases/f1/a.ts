export * as b from "./b";
export const x = 1;

/** doc of A */
export type A = { x: string };
/** doc of B */
type B = { y: string };
export { B };

import { A, B } from "./a";
export type T = { a: A, b: B };
parse.buildParsers<{ T: T }>();

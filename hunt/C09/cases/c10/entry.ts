export type F<T> = { a: T; b: import("./g").T };
parse.buildParsers<{ F: F<number> }>();

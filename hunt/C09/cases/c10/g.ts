export type T = string;

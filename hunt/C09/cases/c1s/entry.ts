type Data2 = string;
type Meta = { d: Data2 };
export type Wrapper<Data> = { data: Data; meta: Meta };
parse.buildParsers<{ W: Wrapper<number> }>();

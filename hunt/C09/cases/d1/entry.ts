import Def, { Y, type Z } from "./a";
import { default as Def2, W as W2 } from "./re";
import type Def3 from "./re";
import * as ns from "./re";
export type T = { def: Def, y: Y, z: Z, def2: Def2, w: W2, def3: Def3, e: ns.inner.E.A, f: ns.inner.E, g: typeof ns.inner.val, h: typeof ns.inner.E.B, i: ns.Foo, j: typeof ns.inner.E };
parse.buildParsers<{ T: T }>();

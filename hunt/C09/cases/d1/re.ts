export { default } from "./a";
export { default as Foo, Y as W } from "./a";
export * as inner from "./a";

export interface Def1 { k: string }
export default Def1;
export type Y = "y";
export type Z = "z";
export enum E { A = "a", B = "b" }
export const val = { n: 1, s: "x" } as const;

import { M } from "./a";
export type T = { [K in "p" | "q"]: M };
parse.buildParsers<{ T: T }>();

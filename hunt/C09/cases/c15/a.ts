type K = boolean;
export type M = { k: K };

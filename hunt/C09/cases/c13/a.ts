enum E { A = "a", B = "b" }
export { E };

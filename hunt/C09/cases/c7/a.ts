export type D = { day: number };

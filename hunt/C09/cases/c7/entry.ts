import { D as Date } from "./a";
export type T = { d: Date };
parse.buildParsers<{ T: T }>();

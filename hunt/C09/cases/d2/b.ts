export const deep = "DEEP" as const;
const lit0 = 5 as const;
export { lit0 as lit };

import { x } from "./a";
import * as ns from "./a";
export type T = { a: typeof x, b: typeof x.inner.deep, c: (typeof ns)["x"]["lit"], d: keyof typeof ns, e: typeof ns.y[0] };
parse.buildParsers<{ T: T }>();

import { deep, lit as l } from "./b";
export const x = { inner: { deep }, lit: l, ...{ sp: 1 } };
export const y = [deep, l] as const;

export type T = typeof import("./g");
parse.buildParsers<{ T: T }>();

export const a = 1;
const d = { x: "s" };
export default d;

const A = { y: 1 };
type A = { x: string };
export type T = typeof A;
export type U = A;
parse.buildParsers<{ T: T, U: U }>();

import { A } from "./a";
import * as ns from "./a";
export type T = typeof A;
export type N = typeof ns;
parse.buildParsers<{ T: T, N: N }>();

const A = { y: 1 };
type A = { x: string };
export { A };
export * from "./c";

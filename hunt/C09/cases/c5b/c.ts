export const A = "from c";

import * as ns from "./a";
export type T = typeof ns;
parse.buildParsers<{ T: T }>();

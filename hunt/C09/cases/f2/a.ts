export * as self from "./a";
export const x = 1;

type A = { k: string };
export default A;

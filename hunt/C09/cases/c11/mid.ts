import D from "./a";
export { D, D as E };

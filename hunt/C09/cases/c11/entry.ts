import { D, E } from "./mid";
export type T = { d: D; e: E };
parse.buildParsers<{ T: T }>();

import { E } from "./a";
export const c = { k: E.A } as const;
export type T = typeof c;
export type U = E.A;
parse.buildParsers<{ T: T, U: U }>();

export enum E { A = "a", B = "b" }

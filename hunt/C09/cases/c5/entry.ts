import { A } from "./a";
export type T = typeof A;
export type U = A;
parse.buildParsers<{ T: T, U: U }>();

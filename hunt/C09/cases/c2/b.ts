export const y = "s";

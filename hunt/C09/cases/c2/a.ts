export * from "./b";
export const x = 1;

import { A } from "./a";
export type T = { a: A };
parse.buildParsers<{ T: T }>();

export type A = string;

namespace N { export type A = number; }
export * from "./c";

import Foo from "./a";
export type T = { d: Foo };
parse.buildParsers<{ T: T }>();

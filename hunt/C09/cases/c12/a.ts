export default interface Foo { k: string }

import { X as X1 } from "./a/b";
import { X as X2 } from "./a_b";
export type T = { one: X1; two: X2 };
parse.buildParsers<{ T: T }>();

export type X = { k: string };

export type X = { k: number };

#!/bin/sh
# usage: _hunt/run.sh case1,case2     (cases are the directories below _hunt/cases; entry.ts is the entry point)
# copies the harness into packages/beff-core/tests/, runs it, removes it again; the generated code of every
# case that compiles is left in target/hunt-out/<case>.js for _hunt/node/validate.mjs
cd /tmp/hunt-C09
cp _hunt/hunt_c09.rs packages/beff-core/tests/hunt_c09.rs
HUNT_CASE="$1" CARGO_NET_OFFLINE=true CARGO_TARGET_DIR=/tmp/hunt-C09/target cargo test -q -p beff-core --test hunt_c09 -- --nocapture 2>&1 | grep -v "^\[packages"
rm -f packages/beff-core/tests/hunt_c09.rs

// Hunt harness for property C09. Copy to packages/beff-core/tests/hunt_c09.rs and run
//   HUNT_CASE=<name> cargo test -p beff-core --test hunt_c09 -- --nocapture
// It reads a case directory _hunt/cases/<name>/ (all files below it form the project, entry.ts is the
// entry point) and prints the diagnostics, the described types and the generated code.
use beff_core::{
    BeffUserSettings, BffFileName, EntryPoints, FileManager, ParsedModule,
    swc_tools::bind_exports::{FsModuleResolver, parse_and_bind},
};
use std::{
    collections::{BTreeMap, BTreeSet},
    path::{Path, PathBuf},
    rc::Rc,
};
use swc_common::{GLOBALS, Globals};

fn normalize(p: &str) -> String {
    let mut out: Vec<&str> = vec![];
    for part in p.split('/') {
        match part {
            "" | "." => {}
            ".." => {
                out.pop();
            }
            x => out.push(x),
        }
    }
    out.join("/")
}

fn resolve(names: &BTreeSet<String>, current: &str, spec: &str) -> Option<BffFileName> {
    if !spec.starts_with('.') {
        return None;
    }
    let dir = match current.rfind('/') {
        Some(i) => &current[..i],
        None => "",
    };
    let base = normalize(&format!("{}/{}", dir, spec));
    for cand in [
        base.clone(),
        format!("{}.ts", base),
        format!("{}.tsx", base),
        format!("{}.d.ts", base),
        format!("{}/index.ts", base),
        format!("{}/index.tsx", base),
        format!("{}/index.d.ts", base),
    ] {
        let cand = normalize(&cand);
        if names.contains(&cand) {
            return Some(BffFileName::new(cand));
        }
    }
    None
}

struct Res {
    names: BTreeSet<String>,
}
impl FsModuleResolver for Res {
    fn resolve_import(&mut self, current_file: BffFileName, spec: &str) -> Option<BffFileName> {
        resolve(&self.names, current_file.as_str(), spec)
    }
}
struct Fm {
    names: BTreeSet<String>,
    fs: BTreeMap<BffFileName, Rc<ParsedModule>>,
}
impl FileManager for Fm {
    fn get_or_fetch_file(&mut self, name: &BffFileName) -> Option<Rc<ParsedModule>> {
        self.fs.get(name).cloned()
    }
    fn get_existing_file(&self, name: &BffFileName) -> Option<Rc<ParsedModule>> {
        self.fs.get(name).cloned()
    }
    fn resolve_import(&mut self, current_file: BffFileName, spec: &str) -> Option<BffFileName> {
        resolve(&self.names, current_file.as_str(), spec)
    }
}

fn collect(root: &Path, dir: &Path, out: &mut Vec<(String, String)>) {
    let mut entries: Vec<PathBuf> = std::fs::read_dir(dir)
        .unwrap()
        .map(|e| e.unwrap().path())
        .collect();
    entries.sort();
    for p in entries {
        if p.is_dir() {
            collect(root, &p, out);
        } else {
            let rel = p.strip_prefix(root).unwrap().to_string_lossy().to_string();
            if rel.ends_with(".ts") || rel.ends_with(".tsx") {
                out.push((rel, std::fs::read_to_string(&p).unwrap()));
            }
        }
    }
}

fn run_case(dir: &Path) {
    let mut files = vec![];
    collect(dir, dir, &mut files);
    let names: BTreeSet<String> = files.iter().map(|(n, _)| n.clone()).collect();
    let mut fs = BTreeMap::new();
    for (name, content) in &files {
        let mut r = Res {
            names: names.clone(),
        };
        let f = BffFileName::new(name.clone());
        let parsed = GLOBALS.set(&Globals::new(), || {
            parse_and_bind(&mut r, &f, content).expect("parse")
        });
        fs.insert(f, parsed);
    }
    let mut man = Fm { names, fs };
    let entry = EntryPoints {
        parser_entry_point: BffFileName::new("entry.ts".into()),
        settings: BeffUserSettings {
            string_formats: BTreeSet::new(),
            number_formats: BTreeSet::new(),
        },
    };
    let p = beff_core::extract(&mut man, entry);
    println!("=== CASE {}", dir.display());
    println!("--- ERRORS ({})", p.errors.len());
    for e in &p.errors {
        println!("{:?}", e);
    }
    println!("--- TYPES");
    println!("{}", p.debug_print());
    if p.errors.is_empty() {
        println!("--- CODE");
        match p.emit_code() {
            Ok(c) => {
                println!("{}", c);
                // also leave the generated code where _hunt/node/validate.mjs picks it up
                let out = PathBuf::from(env!("CARGO_MANIFEST_DIR")).join("../../target/hunt-out");
                std::fs::create_dir_all(&out).unwrap();
                let name = dir.file_name().unwrap().to_string_lossy().to_string();
                std::fs::write(out.join(format!("{}.js", name)), c).unwrap();
            }
            Err(e) => println!("EMIT ERROR {:?}", e),
        }
    }
    println!("=== END");
}

#[test]
fn hunt() {
    let root = PathBuf::from(env!("CARGO_MANIFEST_DIR")).join("../../_hunt/cases");
    let case = std::env::var("HUNT_CASE").unwrap_or_default();
    for c in case.split(',').filter(|c| !c.is_empty()) {
        let dir = root.join(c);
        let r = std::panic::catch_unwind(|| run_case(&dir));
        if let Err(e) = r {
            let msg = e
                .downcast_ref::<String>()
                .cloned()
                .or_else(|| e.downcast_ref::<&str>().map(|s| s.to_string()))
                .unwrap_or_default();
            println!("=== PANIC in case {}: {}", c, msg);
        }
    }
}

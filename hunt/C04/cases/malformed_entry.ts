type A = { x: string ;
parse.buildParsers<{ A: A }>();

type A = A | "x";
type T = `id-${A}`;
parse.buildParsers<{ T: T }>();

//// b.ts
export const v = 1;
//// entry.ts
// a comment that makes entry.ts longer than b.ts ..................................................
// ..................................................................................................
type X = typeof import("./b").inner.v;
parse.buildParsers<{ X: X }>();

//// b.ts
export type BT = string;
//// entry.ts
// a comment that makes entry.ts longer than b.ts ..................................................
// ..................................................................................................
type X = import("./b").Inner.BT;
parse.buildParsers<{ X: X }>();

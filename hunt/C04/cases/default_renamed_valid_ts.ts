//// a.ts
type Config = { port: number };
const Config = { defaults: { port: 80 } };
export { Config as default };
//// entry.ts
import Config from "./a";
type Defaults = typeof Config.defaults;
parse.buildParsers<{ Defaults: Defaults }>();

type A = { x: string };
type Foo<T> = { v: T; next?: Foo<T> };
type Foo_A = { completely: "different" };
parse.buildParsers<{ X: Foo<A>; Y: Foo_A }>();

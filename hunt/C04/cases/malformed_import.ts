//// b.ts
export type B = { x: string ;
//// entry.ts
import { B } from "./b";
parse.buildParsers<{ B: B }>();

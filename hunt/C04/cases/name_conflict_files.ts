//// user-types.ts
export type T = { kind: "dash"; a: string };
//// user_types.ts
export type T = { kind: "underscore"; b: number };
//// entry.ts
import { T as T1 } from "./user-types";
import { T as T2 } from "./user_types";
parse.buildParsers<{ A: T1; B: T2 }>();

type A = B | "x";
type B = A | "y";
type T = `id-${A}`;
parse.buildParsers<{ T: T }>();

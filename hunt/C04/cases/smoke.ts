type A = { a: string, b?: number[] , c: `x${number}` | "q"};
parse.buildParsers<{ A: A }>();

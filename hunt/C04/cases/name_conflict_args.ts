type A_B = { x: string };
type B = { y: string };
type Foo<T> = { v: T; next?: Foo<T> };
type Foo_A<T> = { w: T; next?: Foo_A<T> };
parse.buildParsers<{ X: Foo<A_B>; Y: Foo_A<B> }>();

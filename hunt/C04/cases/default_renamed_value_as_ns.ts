//// a.ts
const v = { x: 1 };
export { v as default };
//// entry.ts
import D from "./a";
type T = D.Foo;
parse.buildParsers<{ T: T }>();

type A = { x: string };
type B = { y: number };
parse.buildParsers<{ __proto__: A; "__proto__": B }>();

type A = A | "x";
type F<T> = T extends string ? 1 : 2;
parse.buildParsers<{ X: F<A> }>();

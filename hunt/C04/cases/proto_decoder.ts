type A = { x: string };
parse.buildParsers<{ __proto__: A; B: A }>();

//// a.ts
type T = { x: 1 };
export { T as default };
//// entry.ts
import D from "./a";
type X = typeof D.x;
parse.buildParsers<{ X: X }>();

import sys
n=int(sys.argv[1]); m=int(sys.argv[2])
mem=[f'{{ type: "t{i}"; v{i}: string; common: number }}' for i in range(n)]
print("type Ev = " + " | ".join(mem) + ";")
ex=[f'{{ type: "t{i}" }}' for i in range(m)]
print("type X = Exclude<Ev, " + " | ".join(ex) + ">;")
print("parse.buildParsers<{ X: X }>();")

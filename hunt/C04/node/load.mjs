// usage: node --import ./register.mjs load.mjs generated.js [names...]
// wraps the generated code like bundle-to-disk.ts does, loads it and builds parsers
import { readFileSync, writeFileSync } from "node:fs";
const gen = readFileSync(process.argv[2], "utf8");
const prelude = readFileSync("/tmp/hunt-C04/packages/beff-wasm/bundled-code/codegen-v2.js", "utf8");
const sf = (process.env.SF ?? "password,User").split(",").filter(Boolean);
const nf = (process.env.NF ?? "age,NonNegativeNumber").split(",").filter(Boolean);
const full = [prelude, `const RequiredStringFormats = ${JSON.stringify(sf)};`, `const RequiredNumberFormats = ${JSON.stringify(nf)};`, gen, "export default { buildParsers, namedRuntypes, buildParsersInput };"].join("\n");
const out = process.argv[2] + ".wrapped.mjs";
writeFileSync(out, full);
const { pathToFileURL } = await import("node:url"); const { resolve: presolve } = await import("node:path"); const m = (await import(pathToFileURL(presolve(out)).href)).default;
const fmts = (xs) => Object.fromEntries(xs.map((k) => [k, () => true]));
const parsers = m.buildParsers({ stringFormats: fmts(sf), numberFormats: fmts(nf) });
const names = Object.keys(parsers);
console.log("LOADED parsers:", names.join(","));
for (const n of names) {
  const p = parsers[n];
  for (const v of [undefined, null, 0, "", "a", [], {}, true]) {
    try { p.safeParse(v); } catch (e) { console.log("THROW safeParse", n, JSON.stringify(v), String(e).slice(0, 200)); }
  }
  try { p.schema(); } catch (e) { console.log("THROW schema", n, String(e).slice(0, 200)); }
  try { p.describe(); } catch (e) { console.log("THROW describe", n, String(e).slice(0, 200)); }
  try { p.hash(); } catch (e) { console.log("THROW hash", n, String(e).slice(0, 200)); }
}
console.log("OK");

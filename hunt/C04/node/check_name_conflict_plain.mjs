// node --no-warnings --import ./node/register.mjs node/check_name_conflict_plain.mjs  (after load.mjs wrote the wrapped module)
import m from "./name_conflict_plain.js.wrapped.mjs";
const p = m.buildParsers({ stringFormats: { password: () => true, User: () => true }, numberFormats: { age: () => true, NonNegativeNumber: () => true } });
console.log("X accepts {v:{x:'a'}} :", p.X.validate({ v: { x: "a" } }));
console.log("X accepts {v:{x:'a'}, next:{v:{x:'b'}}} (valid Foo<A>):", p.X.validate({ v: { x: "a" }, next: { v: { x: "b" } } }));
console.log("X accepts {v:{x:'a'}, next:{completely:'different'}} (not a Foo<A>):", p.X.validate({ v: { x: "a" }, next: { completely: "different" } }));

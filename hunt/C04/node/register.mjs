import { register } from "node:module";
register("./hooks.mjs", import.meta.url);

// loader hooks: ./x.js -> ./x.ts inside the client sources, zod stubbed, type-only imports dropped
import { readFileSync } from "node:fs";
import { fileURLToPath, pathToFileURL } from "node:url";
const CLIENT = "/tmp/hunt-C04/packages/beff-client/src/";
export async function resolve(specifier, context, nextResolve) {
  if (specifier === "zod") return { url: "data:text/javascript,export const z = { custom: () => ({}) };", shortCircuit: true };
  if (specifier === "@beff/client/codegen-v2") return { url: pathToFileURL(CLIENT + "codegen-v2.ts").href, shortCircuit: true };
  if (context.parentURL && context.parentURL.startsWith("file://" + CLIENT) && specifier.startsWith("./") && specifier.endsWith(".js")) {
    return { url: new URL(specifier.replace(/\.js$/, ".ts"), context.parentURL).href, shortCircuit: true };
  }
  return nextResolve(specifier, context);
}
export async function load(url, context, nextLoad) {
  if (url.startsWith("file://" + CLIENT) && url.endsWith(".ts")) {
    let src = readFileSync(fileURLToPath(url), "utf8");
    // imports that only bring types
    src = src.replace(/^import\s*\{[^}]*\}\s*from\s*"\.\/(json-schema|types)\.js";\s*$/gm, "");
    src = src.replace(/^import type [^;]*;\s*$/gm, "");
    const { stripTypeScriptTypes } = await import("node:module");
    return { format: "module", source: stripTypeScriptTypes(src, { mode: "strip" }), shortCircuit: true };
  }
  return nextLoad(url, context);
}

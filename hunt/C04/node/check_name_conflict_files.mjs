import m from "./name_conflict_files.js.wrapped.mjs";
const ok = () => true;
const p = m.buildParsers({ stringFormats: { password: ok, User: ok }, numberFormats: { age: ok, NonNegativeNumber: ok } });
console.log('A (user-types.ts T = {kind:"dash",a:string}) accepts {kind:"dash",a:"x"}:', p.A.validate({ kind: "dash", a: "x" }));
console.log('A accepts {kind:"underscore",b:1} (the OTHER file\'s type):', p.A.validate({ kind: "underscore", b: 1 }));

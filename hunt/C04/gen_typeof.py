import sys
n=int(sys.argv[1])
print("const a0 = { x: 1 };")
for i in range(1,n+1): print(f"const a{i} = {{ l: a{i-1}, r: a{i-1} }};")
print(f"type T = typeof a{n};")
print("parse.buildParsers<{ T: T }>();")

#!/bin/bash
# usage: one.sh seed  -> prints one classification line
S=$1
D=/tmp/hunt-C04/_hunt/fuzz/work2
N=/root/.nvm/versions/node/v22.22.2/bin/node
mkdir -p $D
$N /tmp/hunt-C04/_hunt/fuzz/gen2.mjs $S $D/$S.ts
BIN=$(ls /tmp/hunt-C04/target/debug/deps/hunt-* | grep -v '\.d$' | head -1)
HUNT_CASE=$D/$S.ts HUNT_OUT=$D/$S.js RUST_BACKTRACE=0 timeout 30 $BIN --nocapture --test-threads=1 > $D/$S.log 2>&1
rc=$?
if [ $rc -eq 124 ]; then echo "$S TIMEOUT"; exit; fi
if [ $rc -ne 0 ]; then echo "$S CRASH rc=$rc $(grep -m1 -A1 'panicked at\|overflowed' $D/$S.log | tr '\n' ' ' | cut -c1-220)"; exit; fi
if grep -q "BAD-\|DIAG-UNKNOWN\|emit-error" $D/$S.log; then echo "$S BADDIAG $(grep -m1 'BAD-\|DIAG-UNKNOWN\|emit-error' $D/$S.log | cut -c1-200)"; exit; fi
if grep -q "RESULT diagnostics" $D/$S.log; then echo "$S diag $(grep -m1 -o 'DIAG.*' $D/$S.log | sed 's/.*\] //' | cut -c1-80)"; rm -f $D/$S.ts $D/$S.log; exit; fi
if grep -q "RESULT code" $D/$S.log; then
  out=$(cd /tmp/hunt-C04/_hunt && timeout 30 $N --no-warnings --import ./node/register.mjs node/load.mjs $D/$S.js 2>&1)
  if echo "$out" | grep -q "^OK" && ! echo "$out" | grep -v "Cannot generate JSON Schema\|RangeError" | grep -q "THROW"; then
     np=$(echo "$out" | grep -m1 LOADED | tr ',' '\n' | wc -l)
     want=$(grep -o 'buildParsers<.*' $D/$S.ts | tr ';' '\n' | grep -c ':')
     if [ "$np" != "$want" ]; then echo "$S MISSINGPARSER $np/$want"; exit; fi
     echo "$S ok"; rm -f $D/$S.ts $D/$S.log $D/$S.js $D/$S.js.wrapped.mjs; exit
  fi
  echo "$S NODEFAIL $(echo "$out" | grep -m2 'THROW\|Error' | tr '\n' ' ' | cut -c1-250)"; exit
fi
echo "$S UNKNOWN"

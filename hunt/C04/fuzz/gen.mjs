// grammar-based generator of small TypeScript type programs for beff (seeded)
// usage: node gen.mjs <seed> <outfile>
import { writeFileSync } from "node:fs";

let seed = Number(process.argv[2] ?? 1) >>> 0;
const rnd = () => {
  // mulberry32
  seed = (seed + 0x6d2b79f5) >>> 0;
  let t = seed;
  t = Math.imul(t ^ (t >>> 15), t | 1);
  t ^= t + Math.imul(t ^ (t >>> 7), t | 61);
  return ((t ^ (t >>> 14)) >>> 0) / 4294967296;
};
const ri = (n) => Math.floor(rnd() * n);
const pick = (xs) => xs[ri(xs.length)];
const chance = (p) => rnd() < p;

const N = 2 + ri(3);
const names = Array.from({ length: N }, (_, i) => `T${i}`);
const generics = ["G0", "G1"];
const keys = ["a", "b", "c", "type", "kind"];
const strs = ['"a"', '"b"', '"c"', '"x"', '"y"', '""'];
const consts = ["C0", "C1"];
const enums = ["E0"];
const ifaces = ["I0", "I1"];

function lit() {
  return pick([...strs, "1", "2", "0", "-1", "1.5", "true", "false", "null", "undefined"]);
}
function kw() {
  return pick(["string", "number", "boolean", "null", "undefined", "any", "unknown", "never", "void", "bigint", "object", "Date", "string", "number"]);
}
let curIdx = 0;
function ref(tp) {
  if (tp && chance(0.5)) return tp;
  if (chance(0.12)) return pick([...names, ...ifaces, ...enums]);
  const pool = [...names.slice(0, curIdx), "I0", "B0", "B1", "B2", "B3"];
  return pick(pool);
}
function keyUnion() {
  const n = 1 + ri(3);
  return Array.from({ length: n }, () => pick(strs.slice(0, 5).concat(keys.map((k) => `"${k}"`)))).join(" | ");
}
function obj(d, tp) {
  const n = ri(4);
  const used = new Set();
  const props = [];
  for (let i = 0; i < n; i++) {
    const k = pick(keys);
    if (used.has(k)) continue;
    used.add(k);
    props.push(`${k}${chance(0.3) ? "?" : ""}: ${ty(d - 1, tp)}`);
  }
  if (chance(0.15)) props.push(`[k: ${pick(["string", "number", "`x${string}`", keyUnion()])}]: ${ty(d - 1, tp)}`);
  return `{ ${props.join("; ")} }`;
}
function tpl(d, tp) {
  const parts = [];
  const n = 1 + ri(3);
  for (let i = 0; i < n; i++) {
    parts.push(pick(["a", "-", "", "x/", "."]));
    parts.push("${" + pick(["string", "number", "boolean", keyUnion(), ref(tp), "`q${number}`", '"a" | number']) + "}");
  }
  parts.push(pick(["", "z"]));
  return "`" + parts.join("") + "`";
}
function ty(d, tp) {
  if (d <= 0) return chance(0.5) ? kw() : chance(0.5) ? lit() : ref(tp);
  const r = ri(30);
  switch (r) {
    case 0: case 1: return kw();
    case 2: return lit();
    case 3: case 4: return ref(tp);
    case 5: return `${ty(d - 1, tp)}[]`.replace(/^(.*\|.*)\[\]$/, "($1)[]");
    case 6: {
      const n = ri(4);
      const items = Array.from({ length: n }, () => ty(d - 1, tp));
      if (chance(0.3)) items.push(`...${ty(d - 1, tp)}[]`);
      return `[${items.join(", ")}]`;
    }
    case 7: case 8: case 9: return obj(d, tp);
    case 10: case 11: return `(${ty(d - 1, tp)} | ${ty(d - 1, tp)}${chance(0.3) ? " | " + ty(d - 1, tp) : ""})`;
    case 12: return `(${ty(d - 1, tp)} & ${ty(d - 1, tp)})`;
    case 13: return `${pick(generics)}<${ty(d - 1, tp)}>`;
    case 14: return `Record<${pick([keyUnion(), "string", "number", ref(tp), tpl(1, tp)])}, ${ty(d - 1, tp)}>`;
    case 15: return `${pick(["Pick", "Omit"])}<${ty(d - 1, tp)}, ${pick([keyUnion(), `keyof ${ref(tp)}`, ref(tp)])}>`;
    case 16: return `${pick(["Partial", "Required", "Readonly"])}<${ty(d - 1, tp)}>`;
    case 17: return `Exclude<${ty(d - 1, tp)}, ${ty(d - 1, tp)}>`;
    case 18: return `keyof ${ty(d - 1, tp)}`.replace(/^keyof (.*[|&].*)$/, "keyof ($1)");
    case 19: return `(${ty(d - 1, tp)})[${pick([keyUnion(), "number", "string", `keyof ${ref(tp)}`, ty(d - 1, tp), "0", "1"])}]`;
    case 20: return `{ [K in ${pick([keyUnion(), `keyof ${ref(tp)}`, "string", ref(tp), tpl(1, tp)])}]${pick(["", "?", "+?"])}: ${pick([ty(d - 1, "K"), `(${ref(tp)})[K]`, "K"])} }`;
    case 21: return `(${ty(d - 1, tp)} extends ${ty(d - 1, tp)} ? ${ty(d - 1, tp)} : ${ty(d - 1, tp)})`;
    case 22: return tpl(d, tp);
    case 23: return `typeof ${pick(consts)}${chance(0.3) ? "." + pick(keys) : ""}`;
    case 24: return chance(0.4) ? `Map<${ty(d - 1, tp)}, ${ty(d - 1, tp)}>` : `${pick(["Set", "Array", "ReadonlyArray"])}<${ty(d - 1, tp)}>`;
    case 25: return `E0.${pick(["A", "B", "C"])}`;
    case 26: return `(typeof ${pick(consts)})[${pick(["number", keyUnion(), `keyof typeof ${pick(consts)}`])}]`;
    case 27: return pick(["StringFormat<\"password\">", "NumberFormat<\"age\">", "StringFormatExtends<StringFormat<\"User\">, \"password\">", "Uint8Array", "(() => void)", "Object"]);
    case 28: return `(keyof ${ref(tp)})`;
    default: return obj(d, tp);
  }
}
function expr(d) {
  if (d <= 0) return pick(['"a"', "1", "true", "null", "`t${1}`", pick(consts), "E0.A"]);
  switch (ri(6)) {
    case 0: return `{ ${Array.from({ length: 1 + ri(3) }, () => `${pick(keys)}: ${expr(d - 1)}`).join(", ")}${chance(0.2) ? ", ..." + pick(consts) : ""} }`;
    case 1: return `[${Array.from({ length: 1 + ri(3) }, () => expr(d - 1)).join(", ")}${chance(0.2) ? ", ..." + pick(consts) : ""}]`;
    case 2: return `${expr(d - 1)} as const`.replace(/ as const as const/g, " as const");
    case 3: return `${pick(consts)}.${pick(keys)}`;
    default: return expr(0);
  }
}

const lines = [];
lines.push(`enum E0 { A = "a", B = "b", C = ${pick(["1", '"c"', "`c`"])} }`);
lines.push(`const C0 = ${expr(2).replace(/C[01](\.\w+)?/g, '"k"')};`);
lines.push(`const C1 = ${expr(2).replace(/C1(\.\w+)?/g, "C0")};`);
lines.push(`type B0 = { type: "a"; a: string; b?: number };`);
lines.push(`type B1 = { type: "b"; c: B0[]; kind: "x" | "y" };`);
lines.push(`type B2 = "a" | "b" | "type";`);
lines.push(`type B3 = B0 | B1;`);
lines.push(`interface I0${chance(0.3) ? "<X>" : ""} ${obj(2, null)}`.replace("I0<X>", "I0"));
lines.push(`interface I1 extends ${pick(["I0", "B0", "I0, B1"])} ${obj(2, null)}`);
lines.push(`type G0<X> = ${ty(2, "X")};`);
lines.push(`type G1<X> = ${pick([ty(2, "X"), "X extends " + ty(1, "X") + " ? " + ty(1, "X") + " : " + ty(1, "X"), "{ v: X; next?: G1<X> }", "{ v: X; next?: G1<X[]> }"])};`);
for (const n of names) { lines.push(`type ${n} = ${ty(3, null)};`); curIdx++; }
lines.push(`parse.buildParsers<{ ${names.map((n) => `${n}: ${n}`).join("; ")}; I1: I1 }>();`);
writeFileSync(process.argv[3], lines.join("\n") + "\n");

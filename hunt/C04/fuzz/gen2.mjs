// second generator: semantic operators (Exclude / conditional / keyof / indexed access / intersections)
// over a pool of well-formed, partly recursive named types.  usage: node gen2.mjs <seed> <outfile>
import { writeFileSync } from "node:fs";
let seed = Number(process.argv[2] ?? 1) >>> 0;
const rnd = () => {
  seed = (seed + 0x6d2b79f5) >>> 0;
  let t = seed;
  t = Math.imul(t ^ (t >>> 15), t | 1);
  t ^= t + Math.imul(t ^ (t >>> 7), t | 61);
  return ((t ^ (t >>> 14)) >>> 0) / 4294967296;
};
const ri = (n) => Math.floor(rnd() * n);
const pick = (xs) => xs[ri(xs.length)];
const chance = (p) => rnd() < p;

const pool = [];
const lines = [];
const keys = ["a", "b", "c", "type"];
const prim = ["string", "number", "boolean", "null", "undefined", '"a"', '"b"', "1", "2", "true", "bigint", "Date", "void", "any", "never", "`x${string}`", "`${number}`", 'StringFormat<"password">', 'NumberFormat<"age">', "Uint8Array"];
function base(d, self) {
  if (d <= 0) return chance(0.6) || pool.length === 0 ? pick(prim) : pick(pool);
  switch (ri(12)) {
    case 0: return pick(prim);
    case 1: return pool.length ? pick(pool) : pick(prim);
    case 2: return self && chance(0.7) ? self : pick(prim);
    case 3: return `(${base(d - 1, self)})[]`;
    case 4: {
      const items = Array.from({ length: ri(3) }, () => base(d - 1, self));
      if (chance(0.3)) items.push(`...(${base(d - 1, self)})[]`);
      return `[${items.join(", ")}]`;
    }
    case 5: case 6: case 7: {
      const used = new Set();
      const props = [];
      for (let i = 0; i < 1 + ri(3); i++) {
        const k = pick(keys);
        if (used.has(k)) continue;
        used.add(k);
        props.push(`${k}${chance(0.3) ? "?" : ""}: ${base(d - 1, self)}`);
      }
      if (chance(0.2)) props.push(`[k: ${pick(["string", "number", "`x${string}`"])}]: ${base(d - 1, self)}`);
      return `{ ${props.join("; ")} }`;
    }
    case 8: return `(${base(d - 1, self)} | ${base(d - 1, self)})`;
    case 9: return `(${base(d - 1, self)} & ${base(d - 1, self)})`;
    case 10: return chance(0.5) ? `Map<${base(d - 1, self)}, ${base(d - 1, self)}>` : `Set<${base(d - 1, self)}>`;
    default: return `Record<${pick(['"a" | "b"', "string", "number", "`x${string}`"])}, ${base(d - 1, self)}>`;
  }
}
function op(d) {
  const A = () => (d > 0 && chance(0.3) ? op(d - 1) : chance(0.7) && pool.length ? pick(pool) : base(1, null));
  switch (pick([0,0,1,1,1,2,3,3,4,5,6,7,8,8])) {
    case 0: return `Exclude<${A()}, ${A()}>`;
    case 1: return `(${A()} extends ${A()} ? ${A()} : ${A()})`;
    case 2: return `keyof (${A()})`;
    case 3: return `(${A()})[${pick(['"a"', '"b"', '"type"', '"a" | "b"', "number", "string", "0", `keyof (${A()})`])}]`;
    case 4: return `(${A()} & ${A()})`;
    case 5: return `Partial<${A()}>`;
    case 6: return `Omit<${A()}, ${pick(['"a"', '"a" | "b"', `keyof (${A()})`])}>`;
    case 7: return `{ [K in keyof (${A()})]: (${A()})[K] }`.replace(/\(([^()]*)\)\[K\]/, (m, x) => `(${x})[K]`);
    default: return `Exclude<${A()}, ${pick(["null", "undefined", "string", "null | undefined", '{ type: "a" }', "any[]", "object"])}>`;
  }
}
const nb = 3 + ri(4);
for (let i = 0; i < nb; i++) {
  const n = `N${i}`;
  lines.push(`type ${n} = ${base(3, chance(0.6) ? n : null)};`);
  pool.push(n);
}
const no = 2 + ri(3);
const outs = [];
for (let i = 0; i < no; i++) {
  const n = `X${i}`;
  lines.push(`type ${n} = ${op(2)};`);
  outs.push(n);
  if (chance(0.5)) pool.push(n);
}
lines.push(`parse.buildParsers<{ ${outs.map((n) => `${n}: ${n}`).join("; ")} }>();`);
writeFileSync(process.argv[3], lines.join("\n") + "\n");

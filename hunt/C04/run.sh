#!/bin/bash
# usage: run.sh case-file [out.js]   -- compiles the case with the hunt harness (timeout $HUNT_TIMEOUT, default 60s)
BIN=$(ls /tmp/hunt-C04/target/debug/deps/hunt-* | grep -v '\.d$' | head -1)
if [ -n "$2" ]; then export HUNT_OUT="$2"; fi
HUNT_CASE="$1" timeout ${HUNT_TIMEOUT:-60} "$BIN" --nocapture --test-threads=1 2>&1
echo "EXIT $?"

# usage: mut.py seed out  -- byte/token-level mutation of a program built from prelude + a few snippets
import random, sys, re
seed=int(sys.argv[1]); random.seed(seed)
pre=open('/tmp/hunt-C04/_hunt/snip/prelude.ts').read()
sn=[l.rstrip('\n') for l in open('/tmp/hunt-C04/_hunt/snip/snippets.txt') if l.strip()]
files=re.split(r'(?m)^//// (\S+)\n', pre)[1:]
b=files[1]; e=files[3]
for i in range(4):
    e+= "type X%d = %s;\n" % (i, random.choice(sn))
e+="parse.buildParsers<{ X0: X0; X1: X1; X2: X2; X3: X3 }>();\n"
toks=['<','>','{','}','(',')','[',']','|','&',';',':',',','.','...','?','`','${','"',"'",'=','=>','extends','keyof','typeof','infer','import','export','default','type','interface','enum','as','const','\\','\n','/*','*/','//','*','!','-','\u2028','\ud83d\ude00','0','1e999','0x','#','@']
def mutate(s):
    n=random.randint(1,4)
    for _ in range(n):
        r=random.random()
        if len(s)<5: break
        i=random.randrange(len(s)); j=min(len(s), i+random.randint(1,12))
        if r<0.3: s=s[:i]+s[j:]
        elif r<0.55: s=s[:i]+random.choice(toks)+s[i:]
        elif r<0.7: s=s[:i]+s[i:j]*2+s[j:]
        elif r<0.85:
            k=random.randrange(len(s)); l=min(len(s),k+random.randint(1,12))
            s=s[:i]+s[k:l]+s[j:]
        else: s=s[:i]+random.choice(toks)+s[j:]
    return s
if random.random()<0.3: b=mutate(b)
e=mutate(e)
open(sys.argv[2],'w').write("//// b.ts\n"+b+"//// entry.ts\n"+e)

#!/bin/bash
S=$1; D=/tmp/hunt-C04/_hunt/mut/work; mkdir -p $D
python3 /tmp/hunt-C04/_hunt/mut/mut.py $S $D/$S.ts
BIN=$(ls /tmp/hunt-C04/target/debug/deps/hunt-* | grep -v '\.d$' | head -1)
HUNT_CASE=$D/$S.ts RUST_BACKTRACE=0 timeout 30 $BIN --nocapture --test-threads=1 > $D/$S.log 2>&1
rc=$?
if [ $rc -eq 124 ]; then echo "$S TIMEOUT"; exit; fi
if [ $rc -ne 0 ]; then echo "$S CRASH rc=$rc $(grep -m1 -A1 'panicked at\|overflowed' $D/$S.log | tr '\n' ' ' | cut -c1-200)"; exit; fi
if grep -q "BAD-" $D/$S.log; then echo "$S BADDIAG $(grep -m1 -o 'DIAG.*' $D/$S.log | cut -c1-160)"; exit; fi
if grep -q "emit-error" $D/$S.log; then echo "$S EMITERR"; exit; fi
if grep -q "PARSE-ERROR" $D/$S.log; then echo "$S parseerr"; rm -f $D/$S.ts $D/$S.log; exit; fi
if grep -q "RESULT diagnostics" $D/$S.log; then echo "$S diag"; rm -f $D/$S.ts $D/$S.log; exit; fi
echo "$S ok"; rm -f $D/$S.ts $D/$S.log

import sys
n=int(sys.argv[1]); mode=sys.argv[2]
mem=[f'{{ type: "t{i}"; v{i}: string; common: number }}' for i in range(n)]
print("type Ev = " + " | ".join(mem) + ";")
if mode=="idx": print('type X = Ev["type"];')
if mode=="keyof": print('type X = keyof Ev;')
if mode=="cond": print('type X = Ev extends { common: number } ? 1 : 2;')
if mode=="extract": print('type Ex<T, U> = T extends U ? T : never; type X = Ex<Ev, { type: "t1" } | { type: "t2" }>;')
if mode=="omit": print('type X = Omit<Ev, "common">;')
print("parse.buildParsers<{ X: X }>();")

#!/bin/bash
# builds the hunt harness (integration test packages/beff-core/tests/hunt.rs) once
cp /tmp/hunt-C04/_hunt/hunt.rs /tmp/hunt-C04/packages/beff-core/tests/hunt.rs
cd /tmp/hunt-C04 && CARGO_NET_OFFLINE=true CARGO_TARGET_DIR=/tmp/hunt-C04/target cargo test -p beff-core --test hunt --no-run

// Hunt harness: compiles the project in $HUNT_CASE (sections "//// name.ts") with beff-core's public API.
use beff_core::{
    BeffUserSettings, BffFileName, EntryPoints, FileManager, ParsedModule,
    diag::Location,
    swc_tools::bind_exports::{FsModuleResolver, parse_and_bind},
};
use std::{collections::BTreeMap, collections::BTreeSet, rc::Rc};
use swc_common::{GLOBALS, Globals};

fn res(spec: &str) -> Option<BffFileName> {
    if !spec.starts_with("./") {
        return None;
    }
    let r = spec.replacen("./", "", 1);
    if r.starts_with("missing") {
        return None;
    }
    if r.ends_with(".ts") || r.ends_with(".tsx") {
        return Some(BffFileName::new(r));
    }
    Some(BffFileName::new(format!("{}.ts", r)))
}
struct R {}
impl FsModuleResolver for R {
    fn resolve_import(&mut self, _c: BffFileName, s: &str) -> Option<BffFileName> {
        res(s)
    }
}
struct FM {
    src: BTreeMap<String, String>,
    fs: BTreeMap<BffFileName, Rc<ParsedModule>>,
}
impl FileManager for FM {
    fn get_or_fetch_file(&mut self, name: &BffFileName) -> Option<Rc<ParsedModule>> {
        if let Some(f) = self.fs.get(name) {
            return Some(f.clone());
        }
        let content = self.src.get(name.as_str())?.clone();
        let mut r = R {};
        match parse_and_bind(&mut r, name, &content) {
            Ok(f) => {
                self.fs.insert(name.clone(), f.clone());
                Some(f)
            }
            Err(e) => {
                println!("PARSE-ERROR {} {:?}", name, e);
                None
            }
        }
    }
    fn get_existing_file(&self, name: &BffFileName) -> Option<Rc<ParsedModule>> {
        self.fs.get(name).cloned()
    }
    fn resolve_import(&mut self, _c: BffFileName, s: &str) -> Option<BffFileName> {
        res(s)
    }
}

#[test]
fn hunt() {
    let path = match std::env::var("HUNT_CASE") {
        Ok(p) => p,
        Err(_) => return,
    };
    let text = std::fs::read_to_string(&path).unwrap();
    let mut src: BTreeMap<String, String> = BTreeMap::new();
    let mut cur = "entry.ts".to_string();
    let mut sf: Vec<String> = vec!["password".into(), "User".into()];
    let mut nf: Vec<String> = vec!["age".into(), "NonNegativeNumber".into()];
    for line in text.split_inclusive('\n') {
        if let Some(rest) = line.strip_prefix("//// ") {
            cur = rest.trim().to_string();
            src.entry(cur.clone()).or_default();
            continue;
        }
        if let Some(rest) = line.strip_prefix("////sf ") {
            sf = rest.trim().split(',').map(|s| s.to_string()).collect();
            continue;
        }
        if let Some(rest) = line.strip_prefix("////nf ") {
            nf = rest.trim().split(',').map(|s| s.to_string()).collect();
            continue;
        }
        src.entry(cur.clone()).or_default().push_str(line);
    }
    let entry_name = std::env::var("HUNT_ENTRY").unwrap_or("entry.ts".to_string());
    let mut fm = FM { src: src.clone(), fs: BTreeMap::new() };
    GLOBALS.set(&Globals::new(), || {
        let entry = EntryPoints {
            parser_entry_point: BffFileName::new(entry_name),
            settings: BeffUserSettings {
                string_formats: BTreeSet::from_iter(sf),
                number_formats: BTreeSet::from_iter(nf),
            },
        };
        let r = beff_core::extract(&mut fm, entry);
        if !r.errors.is_empty() {
            for e in &r.errors {
                match &e.loc {
                    Location::Full(f) => {
                        let s = src.get(f.file_name.as_str());
                        let mut verdict = "ok".to_string();
                        match s {
                            None => verdict = "BAD-FILE-NOT-IN-PROJECT".into(),
                            Some(s) => {
                                let lines: Vec<&str> = s.split('\n').collect();
                                for (l, c) in [(f.loc_lo.line, f.loc_lo.col.0), (f.loc_hi.line, f.loc_hi.col.0)] {
                                    if l == 0 || l > lines.len() {
                                        verdict = format!("BAD-LINE {} of {}", l, lines.len());
                                    } else if c > lines[l - 1].chars().count() {
                                        verdict = format!("BAD-COL {} of {}", c, lines[l - 1].chars().count());
                                    }
                                }
                                if (f.loc_lo.line, f.loc_lo.col.0) > (f.loc_hi.line, f.loc_hi.col.0) {
                                    verdict = "BAD-ORDER".into();
                                }
                            }
                        }
                        println!(
                            "DIAG {} {}:{}-{}:{} [{}] {}",
                            f.file_name, f.loc_lo.line, f.loc_lo.col.0, f.loc_hi.line, f.loc_hi.col.0, verdict,
                            e.message.clone().to_string()
                        );
                    }
                    Location::Unknown(u) => {
                        println!("DIAG-UNKNOWN-LOC {} {}", u.current_file, e.message.clone().to_string());
                    }
                }
            }
            println!("RESULT diagnostics");
            return;
        }
        match r.emit_code() {
            Ok(code) => {
                if let Ok(out) = std::env::var("HUNT_OUT") {
                    std::fs::write(out, &code).unwrap();
                }
                println!("{}", code);
                println!("RESULT code");
            }
            Err(e) => println!("RESULT emit-error-without-diagnostic {:?}", e),
        }
    });
}

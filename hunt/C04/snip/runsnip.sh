#!/bin/bash
# usage: runsnip.sh <lineno>   -- runs snippet <lineno> of snippets.txt inside prelude.ts
i=$1
D=/tmp/hunt-C04/_hunt/snip/work; mkdir -p $D
N=/root/.nvm/versions/node/v22.22.2/bin/node
snip=$(sed -n "${i}p" /tmp/hunt-C04/_hunt/snip/snippets.txt)
cp /tmp/hunt-C04/_hunt/snip/prelude.ts $D/$i.ts
printf 'type X = %s;\nparse.buildParsers<{ X: X }>();\n' "$snip" >> $D/$i.ts
BIN=$(ls /tmp/hunt-C04/target/debug/deps/hunt-* | grep -v '\.d$' | head -1)
HUNT_CASE=$D/$i.ts HUNT_OUT=$D/$i.js RUST_BACKTRACE=0 timeout 30 $BIN --nocapture --test-threads=1 > $D/$i.log 2>&1
rc=$?
if [ $rc -eq 124 ]; then echo "$i TIMEOUT | $snip"; exit; fi
if [ $rc -ne 0 ]; then echo "$i CRASH rc=$rc $(grep -m1 -A1 'panicked at\|overflowed' $D/$i.log | tr '\n' ' ' | cut -c1-160) | $snip"; exit; fi
if grep -q "BAD-\|DIAG-UNKNOWN\|emit-error" $D/$i.log; then echo "$i BADDIAG $(grep -m1 -o 'DIAG.*' $D/$i.log | cut -c1-160) | $snip"; exit; fi
if grep -q "RESULT diagnostics" $D/$i.log; then echo "$i diag $(grep -m1 -o 'DIAG.*' $D/$i.log | sed 's/.*\] //' | cut -c1-70) | $snip"; exit; fi
if grep -q "RESULT code" $D/$i.log; then
  out=$(cd /tmp/hunt-C04/_hunt && timeout 30 $N --no-warnings --import ./node/register.mjs node/load.mjs $D/$i.js 2>&1)
  if echo "$out" | grep -q "^OK" && ! echo "$out" | grep -v "Cannot generate JSON Schema" | grep -q "THROW"; then
     if ! echo "$out" | grep -q "LOADED parsers: X"; then echo "$i MISSINGPARSER | $snip"; exit; fi
     echo "$i ok | $snip"; exit
  fi
  echo "$i NODEFAIL $(echo "$out" | grep -m2 'THROW\|Error' | tr '\n' ' ' | cut -c1-200) | $snip"; exit
fi
echo "$i UNKNOWN | $snip"

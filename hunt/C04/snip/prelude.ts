//// b.ts
export type BT = { x: string };
export interface BI { y: number }
export enum BE { P = "p", Q = "q" }
export const bv = { k: 1, s: "s" } as const;
export declare const bd: { q: string };
export default bv;
export function bf() { return 1; }
export class BC { a = 1 }
export * as self from "./b";
//// entry.ts
import * as ns from "./b";
import def, { BT, BI, BE, bv, bd, bf, BC } from "./b";
import type { BT as BT2 } from "./b";
type O = { a: string; b?: number; c: boolean | null };
type P = { type: "p"; a: string };
type Q = { type: "q"; b: number };
type U = P | Q;
type R = { v: string; next: R | null };
type L = [L] | [];
type LL = { items: LL[] };
type S = "a" | "b" | "c";
type G<T> = { v: T };
type GR<T> = { v: T; n?: GR<T> };
interface I { i: string }
interface IG<T> extends G<T> { j: T }
enum E { A = "a", B = "b", N = 1 }
enum EN { X, Y, Z }
const enum CE { A = "ca" }
declare enum DE { A = "da" }
enum EM { A = -1, B = "x" + "y", C = A, D = 1 << 2 }
const c1 = { a: 1, b: "s", c: [1, 2], d: { e: true } };
const c2 = { a: 1, b: "s", c: [1, 2], d: { e: true } } as const;
const arr = [1, "a", true] as const;
let lv = 5;
var vv = "s";
function fn(a: string) { return a; }
class K { p = 1 }
const fnv = () => 1;
const tpl = `a${1}b`;
const neg = -1;
const cond = true ? 1 : 2;
const nw = new Date();
const aw = fn("x");
const big = 10n;
const rx = /a/;
const nul = null;
const und = undefined;
const spreadO = { ...c1, z: 1 };
const spreadA = [...arr, 4];
const sat = { a: 1 } satisfies { a: number };
const asT = { a: 1 } as { a: number };
const nn = c1!;
const par = (c1);
const numk = { 1: "a", "two": 2, [tpl]: 3 };
const meth = { m() { return 1; }, get g() { return 1; } };
const short = { c1, c2 };
